#!/bin/sh
# every thorough command once, unchanged tree, one seed.  Usage: tools/thorough_all.sh <seed> [checks...]
cd "$(dirname "$0")/.."
seed=$1; shift
for p in ${@:-C17 C15 C18 C11 C03}; do
  VERIF_SEED=$seed ./check $p --tier thorough --no-evidence 2>&1 | grep -E "VIOLATION|HARNESS|KNOWN|tier=|^violation" | cut -c1-600 | sed "s/^/seed=$seed /"
done
