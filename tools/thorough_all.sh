#!/bin/sh
# every thorough command once, unchanged tree, one seed.  Usage: tools/thorough_all.sh <seed> [scale] [checks...]
cd "$(dirname "$0")/.."
seed=$1; scale=${2:-1.0}; shift; [ $# -gt 0 ] && shift
for p in ${@:-C17 C18 C03 C15 C11}; do
  VERIF_SEED=$seed ./check $p --tier thorough --scale $scale --no-evidence 2>&1 | grep -E "VIOLATION|HARNESS|KNOWN|tier=|^violation" | cut -c1-600 | sed "s/^/seed=$seed /"
done
