#!/bin/sh
# validate every evidence file against the schema (uses the tooling venv)
for f in /verif/evidence/*.json; do
python3-vt -c "import json,jsonschema,sys; jsonschema.validate(json.load(open('$f')), json.load(open('/root/.vp/EVIDENCE.schema.json'))); print('ok', '$f')" || exit 1
done
