#!/venv/bin/python
"""Regenerate /verif/MANIFEST.json from the table below (single source of truth)."""
import json
import os
import subprocess

VERIF = os.path.dirname(os.path.dirname(os.path.abspath(__file__)))

CLAIMED = {
    "C18": {
        "engine": "crash_fs",
        "level": "fault_enumeration",
        "text": "Depth 1 (one interrupted checkpoint write over a complete checkpoint) is enumerated completely: every fs-operation boundary, every torn prefix class, ENOSPC and short write of every write syscall, for 3 callers x 16 (payload, stdio buffer) configurations and several checkpoint names; sequences of 2..6 consecutive interrupted writes (with optional manual recovery in between) are seeded search; a run-loop sweep reaches the writes through real main() runs (fresh and resumed, with and without checkpoint_all), keeps the fault window open until the next step of the algorithm, and also starts each run in the directories an interrupted write can leave behind. Every crash is judged by a directory classifier (absent/complete(g)/truncated/mixture).",
        "note": "Trusted: SimFS models POSIX rename/unlink and user-space buffering faithfully; failure model is process death (completed syscalls are durable), as the property states; power loss is out of scope.",
        "technique": "deterministic simulation: in-memory fs (hard links, descriptors, sendfile, unbuffered files) with crash/torn-write/short-write/ENOSPC/interrupt injection, exhaustive single-fault sweep + seeded multi-crash sequences",
        "design_ref": "DESIGN.md section 3 (C18)",
    },
}

CLAIMED["C17"] = {
    "engine": "restart_sim",
    "level": "fault_enumeration",
    "text": "For every scene (every torch optimiser constructible with defaults x scheduler, MAP and ELBO losses, every MCMC operator/adaptor type, CLI-emitted mcmc/hmc/map/advi configurations) an uninterrupted run is recorded and then EVERY checkpoint the run writes is used once as the crash point (kill right after the checkpoint, restart through the real main() with -c, run to the end); seeded extras add kill-at-iteration, graceful SIGINT, faults inside a checkpoint write, chains of up to 4 restarts and restarts given an older checkpoint first and the newest last. Scenes include ADVI with normalizing flows (planar layers, RealNVP), full-rank and multi-sample objectives and LBFGS on a stochastic objective. Oracles: restart never fails; deep attribute snapshot at checkpoint == snapshot at run() entry after restart; resumed trajectory == uninterrupted trajectory position by position, bit-exact, and same number of steps.",
    "note": "Trusted: re-seeding keyed by position (MCMC) and by parameter values (stochastic objectives) makes stochastic runs comparable; the snapshot walk (sim/refstate.py) reaches every attribute of the algorithm, operators, adaptors, optimiser and scheduler except an explicit exclusion list (saved_tensors, _epoch, loggers, convergence, listeners). The scene swarm samples configurations; it does not enumerate them.",
    "technique": "deterministic simulation: crash/restart of whole-program incarnations over an in-memory fs, every checkpoint enumerated as crash point, reference = uninterrupted run",
    "design_ref": "DESIGN.md section 3 (C17)",
}

CLAIMED["C15"] = {
    "engine": "mcmc_sim",
    "level": "exploration",
    "text": "Seeded search over MCMC runs: the real MCMC.run with real operators/adaptors/models/loggers runs under a simulator that owns the operator schedule, the accept/reject coin (uniform, boundary coins placed within 1e-9..1e-3 of the true acceptance probability, always-accept-if-possible, always-reject-unless-certain), the per-transition re-seed and hard-wall numerical faults of the target. After every transition a monitor checks: Hastings ratio == reference log q(x|x')-log q(x'|x) per operator type; density used for the proposal and density carried to the next iteration == target of a freshly rebuilt model; decision == reference MH rule; reject restores every parameter bit-for-bit, accept keeps the proposal; tuning direction, tune() called on the proposing operator only; logged rows self-consistent; every HMC proposal equals a reference leapfrog computed on a freshly built model; the law of the random factor / shift of the scaler and sliding-window kernels and of the HMC momentum is measured on the operator's own sampling map (not assumed).",
    "note": "Trusted: the freshly rebuilt model as the definition of the target; numpy/math re-implementations of the proposal kernels (sim/refprop.py); for the GMRF block update the repository's sufficient statistics and precision matrix are inputs of the reference. A clean batch is evidence, not proof.",
    "technique": "deterministic simulation: simulator-owned schedule/coin/seed seams inside MCMC.run, per-transition invariant monitor against a reference Metropolis-Hastings model, seeded swarm of scenes and policies",
    "design_ref": "DESIGN.md section 3 (C15)",
}

CLAIMED["C11"] = {
    "engine": "hist_cache",
    "level": "exploration",
    "text": "Seeded search over histories of 8..50 operations on model graphs built by the real process_objects (hand-written graphs with every parameter kind incl. parametric transforms, scenes for priors, substitution / site / empirical models, time trees, every variational objective incl. SELBO and a normalizing flow - 56 of the 59 concrete model / parameter classes of the package are built and read - and the model part of ~50 CLI-emitted configurations incl. their variational family and ELBO): direct / view / concatenation / transformed assignment, in-place step + notification, distribution draws, proposals and rejections by the real operators, requires_grad toggles, batching of all or of single parameters, draws with a sample shape, interleaved with reads of seeded subsets of observables (each read clears dirty flags) and evaluations aborted by an injected exception. Every read is compared with the same observable of a model freshly built from JSON with the current base values; an update that succeeds on a fresh model must not raise.",
    "note": "Trusted: the fresh rebuild as definition of the correct value (C11 is about caching, not about the value); states whose values cannot be handed to a constructor (mixed batched/unbatched shapes after draws) are not judged and are counted; shapes that differ only by leading singleton dimensions are treated as equal values.",
    "technique": "deterministic simulation: seeded scheduler interleaving updates and reads over the dirty-flag state space, fresh-rebuild oracle, injected evaluation aborts",
    "design_ref": "DESIGN.md section 3 (C11)",
}

CLAIMED["C03"] = {
    "engine": "hist_rescale",
    "level": "exploration",
    "text": "History clause of C03 only. Seeded search over evaluation histories of the real TreeLikelihoodModel on synthetic trees (50..1500 taxa, caterpillar / balanced / random, unrooted or time tree with a strict clock, JC69 / HKY, 1-4 rate categories with or without a zero-rate category, tip partials / tip states, pattern weights, double and single precision): the scheduler scales branch lengths so that per-site likelihoods move between the normal range, the sub-normal band and total underflow (scales found by search on the reference), in unbatched and batched form with rows of mixed magnitude, forces or resets the sticky rescale flag at arbitrary points, revisits easy inputs after the switch, and places directed pieces of history (saturated branches first; an input 740 nats harder than the previous one with the flag on). Every evaluation is compared (1e-8 relative) with a log-space pruning reference and with a twin model that rescaled from the start.",
    "note": "The sweep over all tree sizes / shapes / models is an input quantifier and is only sampled as workload: that part of C03 is not decided here. Trusted: post-order triples and leaf indexing of a freshly built tree model (inputs of the reference), numpy float64 log-sum-exp, closed-form JC69/HKY.",
    "technique": "deterministic simulation restricted to the history clause: seeded evaluation histories across the rescale switch with arithmetic underflow as the injected fault, log-space reference oracle",
    "design_ref": "DESIGN.md section 3 (C03)",
}

NOT_APPLICABLE = {
    "C01": "pure function of (tree, branch lengths, model, alignment): no schedule, clock, fault, crash point or history for a simulator to own",
    "C02": "metamorphic relation between two encodings of the same input; no state, schedule or fault involved",
    "C04": "p_t(t) and q() are stateless functions of parameter values and t",
    "C05": "site-model rates/probabilities are pure functions of the parameters (their cache is exercised under C11)",
    "C06": "node-height transforms are stateless maps of (topology, dates, parameters)",
    "C07": "pointwise identity between a reported log-Jacobian and the autograd Jacobian; no history",
    "C08": "coalescent log-densities are functions of (heights, sampling times, parameters); 'any order' is an input permutation",
    "C09": "birth-death skyline identities compare pure functions on related inputs",
    "C10": "batched-versus-sliced evaluation relates two pure evaluations; shapes are inputs",
    "C12": "gradient versus finite difference at a point: no history, schedule or fault",
    "C13": "the result of loading a specification is a function of the specification text",
    "C14": "tightness of variational bounds is an algebraic identity for every draw; its one stateful clause is exercised inside C11 but the property is not claimed",
    "C16": "reversibility / unit Jacobian / O(eps^2) error are identities of one deterministic map; the operator-level clause is exercised inside C15 but the property is not claimed",
    "C19": "emitted configurations are a function of the CLI option vector; enumerating options is input coverage, not simulation",
    "C20": "GMRF / integrated-prior / sufficient-statistics identities are pointwise equalities between pure functions",
}

PENDING = {
    # claimed in DESIGN.md, check not registered yet (moved to CLAIMED once it runs clean)
}


def main():
    hook_commits = []
    hc = os.path.join(VERIF, "hooks_commits.txt")
    if os.path.exists(hc):
        hook_commits = [l.split()[0] for l in open(hc) if l.strip() and not l.startswith("#")]
    checks = []
    for pid in sorted(CLAIMED):
        c = CLAIMED[pid]
        checks.append(
            {
                "property_id": pid,
                "quick_cmd": "./check %s --tier quick" % pid,
                "thorough_cmd": "./check %s --tier thorough" % pid,
                "evidence_file": "evidence/%s.json" % pid,
                "replay_cmd_template": "./check %s --replay {path}" % pid,
                "engine": c["engine"],
                "level_claimed": {"category": c["level"], "text": c["text"], "design_ref": c["design_ref"]},
                "level_note": c["note"],
                "technique": c["technique"],
            }
        )
    na = [{"property_id": k, "reason": v} for k, v in sorted({**NOT_APPLICABLE, **PENDING}.items())]
    manifest = {
        "version": 1,
        "setup_cmd": "/venv/bin/python -c \"import torch, torchtree, hypothesis\" && chmod +x check",
        "hooks": {
            "guard": "TORCHTREE_VERIF",
            "enable": "environment variable TORCHTREE_VERIF=1 (set by sim/pool.py for every worker process); torchtree is an editable install, so checks import /repo's working tree directly and nothing is built",
            "baseline_off_cmd": "cd /repo && env -u TORCHTREE_VERIF /venv/bin/python -m pytest -ra -q -p no:cacheprovider --timeout=900 --continue-on-collection-errors",
            "source_commits": hook_commits,
            "add_only": True,
        },
        "engines": [
            {"name": "crash_fs", "path": "checks/c18.py", "serves_properties": ["C18"], "kind_free_text": "SimFS crash-point sweep and multi-crash sequences against the real save_parameters"},
            {"name": "restart_sim", "path": "checks/c17.py", "serves_properties": ["C17"], "kind_free_text": "incarnations of torchtree.main() over SimFS with crash/restart at checkpoints"},
            {"name": "mcmc_sim", "path": "checks/c15.py", "serves_properties": ["C15"], "kind_free_text": "MCMC.run under a simulator-owned operator schedule, coin and numerical faults, with a reference MH model"},
            {"name": "hist_cache", "path": "checks/c11.py", "serves_properties": ["C11"], "kind_free_text": "seeded update/evaluate histories against a freshly rebuilt model"},
            {"name": "hist_rescale", "path": "checks/c03.py", "serves_properties": ["C03"], "kind_free_text": "evaluation histories across the rescale switch against a log-space pruning reference"},
        ],
        "checks": checks,
        "not_applicable": na,
        "notes": "Technique family: deterministic simulation with fault injection. See DESIGN.md. Exit 2 = harness error (never a violation).",
    }
    manifest["engines"] = [e for e in manifest["engines"] if os.path.exists(os.path.join(VERIF, e["path"]))]
    with open(os.path.join(VERIF, "MANIFEST.json"), "w") as fp:
        json.dump(manifest, fp, indent=1)
        fp.write("\n")
    # validate
    code = (
        "import json,jsonschema;"
        "jsonschema.validate(json.load(open('%s/MANIFEST.json')), json.load(open('/root/.vp/MANIFEST.schema.json')));"
        "print('MANIFEST ok')" % VERIF
    )
    subprocess.run(["python3-vt", "-c", code], check=True)
    ids = {c["property_id"] for c in checks} | {n["property_id"] for n in na}
    want = {"C%02d" % i for i in range(1, 21)}
    assert ids == want, (want - ids, ids - want)


if __name__ == "__main__":
    main()
