#!/venv/bin/python
"""Re-execute the scenario of a committed finding replay on the tree named by VERIF_REPO
(or /repo) and rewrite its recorded signature/message from what is observed now.
Used once, when the signature format of an engine changes."""
import importlib, json, os, sys
sys.path.insert(0, os.path.dirname(os.path.dirname(os.path.abspath(__file__))))
if os.environ.get("VERIF_REPO"):
    sys.path.insert(0, os.environ["VERIF_REPO"])
os.environ.setdefault("TORCHTREE_VERIF", "1")
for path in sys.argv[1:]:
    d = json.load(open(path))
    mod = importlib.import_module("checks." + d["engine"])
    mod.worker_init()
    r = mod.execute(d["scenario"])
    if not r["violations"]:
        print("no violation:", path)
        continue
    v = r["violations"][0]
    d["signature"], d["message"] = v["signature"], v["message"]
    json.dump(d, open(path, "w"), indent=1, sort_keys=True)
    print("refreshed", path, v["signature"])
