#!/venv/bin/python
"""Sensitivity self-test: apply each patch of /verif/mutants (and /verif/seeded/*/patch.diff)
to a scratch worktree of /repo outside /repo and /verif, run the quick check of the
property it breaks with VERIF_REPO pointing at the scratch tree, and require a
VIOLATION.  The worktree is removed immediately afterwards.

  tools/mutants.py [--only SUBSTR] [--jobs N] [--workers N] [--tier quick]

Writes mutants/results.json (name -> {property, killed, seconds, signatures}).
"""
import argparse
import concurrent.futures
import json
import os
import re
import shutil
import subprocess
import sys
import tempfile
import time

VERIF = os.path.dirname(os.path.dirname(os.path.abspath(__file__)))
REPO = "/repo"


def collect():
    items = []
    idx = json.load(open(os.path.join(VERIF, "mutants", "index.json")))
    for name, meta in sorted(idx.items()):
        items.append((name, meta["property"], os.path.join(VERIF, "mutants", name + ".patch"), meta.get("description", "")))
    seeded = os.path.join(VERIF, "seeded")
    if os.path.isdir(seeded):
        for d in sorted(os.listdir(seeded)):
            p = os.path.join(seeded, d, "patch.diff")
            m = os.path.join(seeded, d, "meta.json")
            if os.path.exists(p) and os.path.exists(m):
                meta = json.load(open(m))
                items.append(("seeded/" + d, meta["property"], p, meta.get("title", "")))
    return items


def run_one(item, workers, tier, scale):
    name, prop, patch, desc = item
    t0 = time.time()
    tmp = tempfile.mkdtemp(prefix="verif_mut_", dir=os.environ.get("TMPDIR", "/tmp"))
    wt = os.path.join(tmp, "tree")
    res = {"property": prop, "description": desc, "killed": False, "applied": False}
    try:
        for attempt in range(6):  # other users of /repo's worktree list may hold its lock for a moment
            r = subprocess.run(["git", "-C", REPO, "worktree", "add", "-q", "--detach", wt, "HEAD"], capture_output=True, text=True)
            if r.returncode == 0:
                break
            time.sleep(2 + attempt)
        else:
            res["error"] = "git worktree add failed: " + r.stderr[:200]
            return name, res
        r = subprocess.run(["git", "-C", wt, "apply", patch], capture_output=True, text=True)
        if r.returncode != 0:
            res["error"] = "patch does not apply: " + r.stderr[:300]
            return name, res
        res["applied"] = True
        env = dict(os.environ, VERIF_REPO=wt)
        cmd = [os.path.join(VERIF, "check"), prop, "--tier", tier, "--no-evidence", "--no-selftest", "--workers", str(workers), "--scale", str(scale)]
        r = subprocess.run(cmd, capture_output=True, text=True, env=env, cwd=VERIF, timeout=3600)
        out = r.stdout
        res["exit"] = r.returncode
        res["killed"] = r.returncode == 1 and "VIOLATION property=%s" % prop in out
        res["signatures"] = sorted(set(re.findall(r"^violation: (\{.*?\}) ::", out, re.M)))[:6]
        if r.returncode == 2:
            res["harness_error"] = out[-1500:]
    except subprocess.TimeoutExpired:
        res["error"] = "timeout"
    finally:
        subprocess.run(["git", "-C", REPO, "worktree", "remove", "--force", wt], capture_output=True)
        shutil.rmtree(tmp, ignore_errors=True)
        subprocess.run(["git", "-C", REPO, "worktree", "prune"], capture_output=True)
    res["seconds"] = round(time.time() - t0, 1)
    return name, res


def main():
    ap = argparse.ArgumentParser()
    ap.add_argument("--only", default=None)
    ap.add_argument("--jobs", type=int, default=4)
    ap.add_argument("--workers", type=int, default=4)
    ap.add_argument("--tier", default="quick")
    ap.add_argument("--scale", type=float, default=1.0)
    args = ap.parse_args()
    items = [it for it in collect() if not args.only or args.only in it[0] or args.only == it[1]]
    path = os.path.join(VERIF, "mutants", "results.json")
    results = json.load(open(path)) if os.path.exists(path) else {}
    with concurrent.futures.ThreadPoolExecutor(args.jobs) as ex:
        for name, res in ex.map(lambda it: run_one(it, args.workers, args.tier, args.scale), items):
            results[name] = res
            print("%-46s %s %-8s %6.1fs %s" % (name, res["property"], "KILLED" if res["killed"] else "SURVIVED", res.get("seconds", 0), res.get("error", "") or (res.get("signatures") or [""])[0][:110]), flush=True)
            json.dump(results, open(path, "w"), indent=1, sort_keys=True)
    killed = sum(1 for r in results.values() if r["killed"])
    print("killed %d of %d" % (killed, len(results)))
    # the replay files written while a mutant was applied describe scratch trees
    subprocess.run([os.path.join(VERIF, "tools", "clean_replays.py")])
    return 0


if __name__ == "__main__":
    sys.exit(main())
