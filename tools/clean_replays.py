#!/venv/bin/python
"""Remove run-time replay files (replays/ is git-ignored scratch output)."""
import glob, os
for f in glob.glob(os.path.join(os.path.dirname(os.path.dirname(os.path.abspath(__file__))), "replays", "*.json")):
    os.remove(f)
