#!/venv/bin/python
"""Confirm sub-agent deliveries independently and file them under /verif/seeded/.
For each /tmp/seed_<p>_out/patch_i.diff: fresh scratch worktree of /repo HEAD; demo on the
pristine tree must exit 0; apply patch; the repository's test-suite must still pass; demo must
exit non-zero; worktree removed."""
import json, os, shutil, subprocess, sys, tempfile
VERIF = os.path.dirname(os.path.dirname(os.path.abspath(__file__)))
PY = "/venv/bin/python"
def run(cmd, cwd=None, env=None, timeout=900):
    r = subprocess.run(cmd, cwd=cwd, env=env, capture_output=True, text=True, timeout=timeout)
    return r.returncode, (r.stdout + r.stderr)[-1500:]
ROUND = os.environ.get("SEED_ROUND", "")
for prop in sys.argv[1:]:
    src = "/tmp/seed%s_%s_out" % (ROUND, prop.lower())
    for i in (1, 2, 3):
        patch, demo, meta = (os.path.join(src, n % i) for n in ("patch_%d.diff", "demo_%d.py", "meta_%d.json"))
        if not os.path.exists(patch):
            print(prop, i, "missing"); continue
        tmp = tempfile.mkdtemp(prefix="verif_seed_", dir="/tmp")
        wt = os.path.join(tmp, "tree")
        try:
            subprocess.run(["git", "-C", "/repo", "worktree", "add", "-q", "--detach", wt, "HEAD"], check=True)
            env = dict(os.environ, PYTHONPATH=wt)
            env.pop("TORCHTREE_VERIF", None)
            rc0, out0 = run([PY, demo], cwd=tmp, env=env)
            rca, outa = run(["git", "-C", wt, "apply", patch])
            rct, outt = run([PY, "-m", "pytest", "-q", "-p", "no:cacheprovider"], cwd=wt, env=env)
            rc1, out1 = run([PY, demo], cwd=tmp, env=env)
            ok = rc0 == 0 and rca == 0 and rct == 0 and "144 passed" in outt and rc1 != 0
            print("%s-%d pristine_demo=%d apply=%d tests=%d(%s) patched_demo=%d => %s" % (prop, i, rc0, rca, rct, outt.strip().splitlines()[-1][:40], rc1, "CONFIRMED" if ok else "REJECTED"), flush=True)
            if ok:
                dst = os.path.join(VERIF, "seeded", "%s-%s%d" % (prop, ("r%s-" % ROUND) if ROUND else "", i))
                os.makedirs(dst, exist_ok=True)
                shutil.copy(patch, os.path.join(dst, "patch.diff"))
                shutil.copy(demo, os.path.join(dst, "demo.py"))
                m = json.load(open(meta))
                m["confirmed_by"] = {"what_i_ran": "fresh worktree of /repo HEAD under /tmp: `PYTHONPATH=<tree> /venv/bin/python demo.py` exit 0 on pristine; `git apply patch.diff`; `/venv/bin/python -m pytest -q -p no:cacheprovider` -> 144 passed; demo exit %d on patched tree; worktree removed" % rc1,
                                     "patched_demo_tail": out1[-400:]}
                m["source"] = "independent sub-agent given only the property text and its own scratch worktree"
                json.dump(m, open(os.path.join(dst, "meta.json"), "w"), indent=1)
            else:
                print(out0[-300:], outa[-200:], out1[-300:])
        finally:
            subprocess.run(["git", "-C", "/repo", "worktree", "remove", "--force", wt], capture_output=True)
            shutil.rmtree(tmp, ignore_errors=True)
