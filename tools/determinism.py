#!/venv/bin/python
"""Large-sample determinism proof: for every engine, take N tasks of the quick plan and execute
them in three process layouts (1 worker / PYTHONHASHSEED=0, 16 workers / 1, 5 workers / 99);
the event-log digests of every task must agree across all three.

  tools/determinism.py [N] [ENGINE ...]      (default N=24, all engines)

Exit 0 when every digest agrees, 2 otherwise.  Writes determinism_report.json next to this file's parent.
"""
import importlib
import json
import os
import sys
import time

VERIF = os.path.dirname(os.path.dirname(os.path.abspath(__file__)))
sys.path.insert(0, VERIF)
os.environ.setdefault("PYTHONHASHSEED", "0")

from sim import pool  # noqa: E402
from sim.core import DEFAULT_SEED  # noqa: E402


def main():
    args = sys.argv[1:]
    n = int(args[0]) if args and args[0].isdigit() else 24
    engines = [a.lower() for a in args if not a.isdigit()] or ["c18", "c17", "c15", "c11", "c03"]
    seed = int(os.environ.get("VERIF_SEED", DEFAULT_SEED))
    report = {}
    bad = 0
    for eng in engines:
        mod = importlib.import_module("checks." + eng)
        tasks = mod.plan("quick", seed, 1.0)
        tasks = [t for t in tasks if t.get("kind") != "real"]
        step = max(1, len(tasks) // n)
        sample = tasks[::step][:n]
        t0 = time.time()
        runs = []
        for workers, hs in ((1, "0"), (16, "1"), (5, "99")):
            res = pool.run_tasks(mod.ENGINE, sample, workers=workers, timeout_s=3600, hashseed=hs)
            runs.append([r.get("digest") if "harness_error" not in r else "ERR:" + r["harness_error"][-200:] for r in res])
        mism = [i for i in range(len(sample)) if len({r[i] for r in runs}) != 1]
        report[eng] = {"tasks": len(sample), "layouts": ["1 worker, hashseed 0", "16 workers, hashseed 1", "5 workers, hashseed 99"],
                       "mismatches": len(mism), "seconds": round(time.time() - t0, 1)}
        bad += len(mism)
        print("%s: %d tasks x 3 layouts, mismatches %d (%.0fs)" % (eng, len(sample), len(mism), time.time() - t0), flush=True)
        for i in mism[:3]:
            print("   task", json.dumps(sample[i])[:200], [r[i][:16] for r in runs])
    with open(os.path.join(VERIF, "determinism_report.json"), "w") as fp:
        json.dump({"seed": seed, "engines": report}, fp, indent=1, sort_keys=True)
    return 2 if bad else 0


if __name__ == "__main__":
    sys.exit(main())
