#!/bin/sh
# false-alarm soak: every check, several seeds, quick tier, unchanged tree.  Usage: tools/soak.sh <first-seed> <last-seed>
cd "$(dirname "$0")/.."
for s in $(seq $1 $2); do
  for p in C18 C17 C15 C11 C03; do
    VERIF_SEED=$s ./check $p --tier quick --no-evidence --no-selftest 2>&1 | grep -E "VIOLATION|HARNESS|tier=" | sed "s/^/seed=$s /"
  done
done
