"""C03 (history clause) - likelihood accuracy does not degrade with tree size.

Engine hist_rescale: the real TreeLikelihoodModel on synthetic trees of 50..1500
taxa.  The "fault" of this property is arithmetic underflow: the scheduler moves
the per-site likelihoods between the normal range, the sub-normal band
[5e-324, 2.3e-308] and total underflow by scaling branch lengths, in unbatched
and batched ([S] rows of *mixed* magnitude) form, and orders evaluations so that
the sticky `rescale` flag flips at different points of the history.  After
every evaluation the value is compared with a log-space pruning reference and
with a twin model that rescaled from the start.

Only the part of C03 that is about histories is decided here; the sweep over
all tree sizes / shapes / models is an input quantifier and is only sampled as
workload.
"""
from __future__ import annotations

import copy
import json
import math
import sys

from sim import fresh as freshlib
from sim import refprune
from sim.core import EventLog, Rng, Streams, ddmin, run_seed

PROP = "C03"
ENGINE = "c03"
LEVEL = "exploration"
ASSUMPTIONS = [
    "only the history clause of C03 is claimed (sticky rescale flag, re-use of partials by the 'safe' pass, consistency of evaluations after the switch); the all-sizes/all-models sweep is sampled as workload only",
    "the reference takes the topology arrays (post-order triples, leaf index = taxon index) of a freshly built tree model and computes everything else itself in log space (numpy float64 log-sum-exp, closed-form JC69/HKY)",
    "no fault other than arithmetic underflow exists for this property",
    "agreement is required to 1e-8 relative, as the property states, whenever the reference is finite",
]

LOG_MIN_NORMAL = math.log(2.2250738585072014e-308)
LOG_MIN_SUBNORMAL = math.log(5e-324)


def worker_init():
    from sim import envinfo

    envinfo.setup()
    sys.setrecursionlimit(20000)


# ----------------------------------------------------------------------------
# scenes: synthetic trees and alignments
# ----------------------------------------------------------------------------
def make_newick(shape, n, rng):
    names = ["t%d" % i for i in range(n)]
    if shape == "caterpillar":
        s = "(%s:1,%s:1)" % (names[0], names[1])
        for i in range(2, n):
            s = "(%s:1,%s:1)" % (s, names[i])
        return s + ";"
    if shape == "balanced":
        level = ["%s:1" % x for x in names]
        while len(level) > 1:
            nxt = []
            for i in range(0, len(level) - 1, 2):
                nxt.append("(%s,%s):1" % (level[i], level[i + 1]))
            if len(level) % 2:
                nxt.append(level[-1])
            level = nxt
        return level[0].rsplit(":", 1)[0] + ";"
    items = ["%s:1" % x for x in names]
    while len(items) > 1:
        i = rng.randint(0, len(items) - 1)
        a = items.pop(i)
        j = rng.randint(0, len(items) - 1)
        b = items.pop(j)
        items.append("(%s,%s):1" % (a, b))
    return items[0].rsplit(":", 1)[0] + ";"


def make_sequences(n, sites, rng, style, dup=0):
    """Random 4-state data; 'style' controls how conserved the columns are.  'clade': the
    first half of the taxa (a clade in the caterpillar and balanced shapes) carry identical
    sequences, the rest is random, so that one clade keeps large partials while the other
    underflows, until the branches are stretched."""
    cols = []
    if style == "outlier":
        # many distinct but easy patterns (constant columns with two deviating taxa) and a single
        # hard one (a random column): only that column reaches the bottom of the sub-normal band
        hard = rng.randint(0, sites - 1)
        for j in range(sites):
            if j == hard:
                cols.append([rng.choice("ACGT") for _ in range(n)])
                continue
            major = "ACGT"[j % 4]
            col = [major] * n
            col[j % n] = "ACGT"[(j + 1) % 4]
            col[(j * 7 + 3) % n] = "ACGT"[(j // n + 2) % 4]
            cols.append(col)
        return ["".join(cols[k][i] for k in range(sites)) for i in range(n)]
    if style == "clade":
        half = n // 2
        for _ in range(sites):
            major = rng.choice("ACGT")
            cols.append([major] * half + [rng.choice("ACGT") for _ in range(n - half)])
        return ["".join(cols[k][i] for k in range(sites)) for i in range(n)]
    for _ in range(sites):
        if style == "random" or rng.bernoulli(0.3):
            col = [rng.choice("ACGT") for _ in range(n)]
        else:
            major = rng.choice("ACGT")
            col = [major if rng.bernoulli(0.9) else rng.choice("ACGT") for _ in range(n)]
        if rng.bernoulli(0.2):
            col[rng.randint(0, n - 1)] = "-"
        cols.append(col)
    if dup:
        # repeated columns: patterns with weight > 1 (appended after all other draws)
        cols = cols + [list(cols[(3 * j) % len(cols)]) for j in range(dup)]
    return ["".join(cols[k][i] for k in range(len(cols))) for i in range(n)]


def _site_model(recipe):
    """constant | invariant (a zero-rate category) | Weibull(K) | Weibull(K) + invariant"""
    K, inv = recipe.get("categories", 1), recipe.get("invariant")
    pinv = {"id": "pinv", "type": "Parameter", "tensor": [inv]} if inv else None
    if K == 1 and not inv:
        return {"id": "sitemodel", "type": "ConstantSiteModel"}
    if K == 1:
        return {"id": "sitemodel", "type": "InvariantSiteModel", "invariant": pinv}
    sm = {"id": "sitemodel", "type": "WeibullSiteModel", "categories": K, "shape": {"id": "shape", "type": "Parameter", "tensor": [recipe.get("shape_value", 0.7)]}}
    if inv:
        sm["invariant"] = pinv
    return sm


def build_spec(recipe):
    rng = Rng(recipe["data_seed"])
    n, sites = recipe["taxa"], recipe["sites"]
    newick = make_newick(recipe["shape"], n, rng)
    seqs = make_sequences(n, sites, rng, recipe["style"], recipe.get("dup_columns", 0))
    base = [math.exp(0.6 * rng.normal()) * 0.05 for _ in range(2 * n - 3)]
    names = ["t%d" % i for i in range(n)]
    if recipe.get("clock"):
        # rooted time tree (node heights from ratios), branch lengths = clock rate x durations
        # ratios that keep every duration within a few orders of magnitude of the root height (a
        # branch of 1e-12 expected substitutions loses its off-diagonal transition probabilities to
        # the cancellation in 1 - exp(-x) at any tree size: that is not the underflow C03 is about)
        lo, hi = {"caterpillar": (1.0 - 3.0 / n, 1.0 - 0.5 / n), "balanced": (0.5, 0.9)}.get(recipe["shape"], (0.8, 0.97))
        ratios = [round(lo + (hi - lo) * rng.random(), 6) for _ in range(n - 2)]
        tree = {"id": "tree", "type": "ReparameterizedTimeTreeModel", "newick": newick,
                "taxa": {"id": "taxa", "type": "Taxa", "taxa": [{"id": x, "type": "Taxon", "attributes": {"date": 0.0}} for x in names]},
                "ratios": {"id": "ratios", "type": "Parameter", "tensor": ratios},
                "root_height": {"id": "root_height", "type": "Parameter", "tensor": [recipe.get("root_height", 1.0)]}}
        base = None
    else:
        tree = {"id": "tree", "type": "UnRootedTreeModel", "newick": newick, "taxa": "taxa",
                "branch_lengths": {"id": "blens", "type": "Parameter", "tensor": base}}
    if recipe["model"] == "JC69":
        subst = {"id": "substmodel", "type": "JC69"}
    else:
        subst = {"id": "substmodel", "type": "HKY", "kappa": {"id": "kappa", "type": "Parameter", "tensor": [recipe.get("kappa", 3.0)]},
                 "frequencies": {"id": "freqs", "type": "Parameter", "tensor": recipe.get("freqs", [0.3, 0.2, 0.15, 0.35])}}
    like_extra = {"branch_model": {"id": "clock", "type": "StrictClockModel", "tree_model": "tree", "rate": {"id": "rate", "type": "Parameter", "tensor": [1.0]}}} if recipe.get("clock") else {}
    spec = ([{"id": "taxa", "type": "Taxa", "taxa": [{"id": x, "type": "Taxon"} for x in names]}] if not recipe.get("clock") else [tree]) + [
        {"id": "alignment", "type": "Alignment", "datatype": {"id": "data_type", "type": "NucleotideDataType"}, "taxa": "taxa",
         "sequences": [{"taxon": x, "sequence": s} for x, s in zip(names, seqs)]},
        {"id": "like", "type": "TreeLikelihoodModel", **like_extra,
         "tree_model": "tree" if recipe.get("clock") else tree,
         "site_model": _site_model(recipe),
         "substitution_model": subst,
         "site_pattern": {"id": "patterns", "type": "SitePattern", "alignment": "alignment"},
         "use_tip_states": bool(recipe.get("tip_states", False))},
    ]
    return spec, seqs, base


# ----------------------------------------------------------------------------
# the history machine
# ----------------------------------------------------------------------------
LIMITS = {"float64": (LOG_MIN_NORMAL, LOG_MIN_SUBNORMAL), "float32": (math.log(1.1754943508222875e-38), math.log(1.401298464324817e-45))}


def band_of(min_site_ll, dtype="float64"):
    lo_normal, lo_sub = LIMITS[dtype]
    if min_site_ll >= lo_normal:
        return "normal"
    if min_site_ll >= lo_sub:
        return "subnormal"
    return "underflow"


class Machine:
    def __init__(self, recipe, log):
        import torch

        self.recipe = recipe
        self.log = log
        self.dtype = recipe.get("dtype", "float64")
        self.tdtype = getattr(torch, self.dtype)
        # single precision: only "finite whenever the true value is finite" and gross agreement are judged
        self.rtol = 1e-8 if self.dtype == "float64" else 2e-3
        self.spec, self.seqs, self.base = build_spec(recipe)
        torch.set_default_dtype(self.tdtype)
        try:
            self.dic = freshlib.build(self.spec)
            self.twin_dic = freshlib.build(self.spec)
        finally:
            torch.set_default_dtype(torch.float64)
        self.like = self.dic["like"]
        self.twin = self.twin_dic["like"]
        self.twin.rescale = True
        self.rooted = bool(recipe.get("clock"))
        if self.rooted:
            with torch.no_grad():
                self.base = [float(x) for x in self.twin.tree_model.branch_lengths().reshape(-1).tolist()]
        self.postorder = [tuple(int(x) for x in tr) for tr in self.like.tree_model.postorder]
        self.n = recipe["taxa"]
        self.scales = [1.0]
        self.kappa = [recipe.get("kappa", 3.0)]
        self.violations = []
        self.states = []
        self.stats = {"evals": 0, "rows": 0, "switches": 0, "twin_checks": 0}
        self.prev_state = None
        self._ref_cache = {}
        self._cats = None

    def reference(self, scale, kappa):
        import numpy as np

        key = (scale, kappa)
        if key not in self._ref_cache:
            bl = np.asarray(self.base) * scale
            pi = self.recipe.get("freqs", [0.3, 0.2, 0.15, 0.35])
            if self.recipe.get("categories", 1) == 1 and not self.recipe.get("invariant"):
                sl = refprune.site_log_likelihoods(self.postorder, self.n, bl, self.seqs, self.recipe["model"], kappa, pi, rooted=self.rooted)
            else:
                # category rates / proportions are inputs of the reference (they are property C05);
                # the mixture over categories is done here in log space
                if self._cats is None:
                    import torch

                    sm = self.twin_dic["sitemodel"]
                    torch.set_default_dtype(self.tdtype)
                    try:
                        with torch.no_grad():
                            self._cats = (sm.rates().reshape(-1).tolist(), sm.probabilities().reshape(-1).tolist())
                    finally:
                        torch.set_default_dtype(torch.float64)
                rates, probs = self._cats
                per = [refprune.site_log_likelihoods(self.postorder, self.n, bl * r, self.seqs, self.recipe["model"], kappa, pi, rooted=self.rooted) + math.log(p)
                       for r, p in zip(rates, probs) if p > 0]
                sl = refprune._lse(np.stack(per), axis=0)
            self._ref_cache[key] = (float(np.sum(sl)), float(np.min(sl)))
        return self._ref_cache[key]

    def set_inputs(self, model_dic, scales, kappas):
        import torch

        base = torch.tensor(self.base, dtype=self.tdtype)
        if self.rooted:
            # the scale is the clock rate; a batch is a [S, 1] rate against one set of node heights
            model_dic["rate"].tensor = torch.tensor([scales[0]] if len(scales) == 1 else [[s] for s in scales], dtype=self.tdtype)
        elif len(scales) == 1:
            model_dic["blens"].tensor = base * scales[0]
        else:
            model_dic["blens"].tensor = torch.stack([base * s for s in scales])
        if self.recipe["model"] == "HKY":
            if len(kappas) == 1:
                model_dic["kappa"].tensor = torch.tensor([kappas[0]], dtype=self.tdtype)
            else:
                model_dic["kappa"].tensor = torch.tensor([[k] for k in kappas], dtype=self.tdtype)

    def apply(self, op):
        import torch

        kind = op["op"]
        if kind == "set":
            self.scales = list(op["scales"])
            ks = op.get("kappas") or [self.kappa[0]] * len(self.scales)
            if len(self.scales) == 1:
                ks = ks[:1]
            self.kappa = list(ks)
            self.set_inputs(self.dic, self.scales, self.kappa)
            self.set_inputs(self.twin_dic, self.scales, self.kappa)
            self.log.add("set", self.scales, self.kappa)
            return True
        if kind == "force_rescale":
            self.like.rescale = True
            self.like.lp_needs_update = True
            self.log.add("force_rescale")
            return True
        if kind == "reset_flag":
            # the flag is a public attribute: a user may switch rescaling off again (the model must then
            # find out by itself, once more, that it needs it)
            self.like.rescale = False
            self.like.lp_needs_update = True
            self.log.add("reset_flag")
            return True
        if kind == "eval":
            return self.eval()
        raise ValueError(kind)

    def eval(self):
        import torch

        self.stats["evals"] += 1
        flag_before = bool(self.like.rescale)
        torch.set_default_dtype(self.tdtype)  # (a run with --dtype float32 has this default throughout)
        try:
            with torch.no_grad():
                try:
                    lp = self.like()
                except Exception as e:  # noqa: BLE001
                    self.violate("raises", flag_before, "?", "evaluation raised %s: %s" % (type(e).__name__, str(e)[:200]))
                    return False
                tw = self.twin()
        finally:
            torch.set_default_dtype(torch.float64)
        flag_after = bool(self.like.rescale)
        if flag_after and not flag_before:
            self.stats["switches"] += 1
        lp = lp.reshape(-1).tolist()
        tw = tw.reshape(-1).tolist()
        batched = len(self.scales) > 1
        ok = True
        bands = []
        for r, s in enumerate(self.scales):
            k = self.kappa[r] if len(self.kappa) > 1 else self.kappa[0]
            ref, min_site = self.reference(s, k)
            band = band_of(min_site, self.dtype)
            bands.append(band)
            self.stats["rows"] += 1
            v = lp[r] if r < len(lp) else float("nan")
            self.log.add("eval", r, s, k, v, ref, flag_before, flag_after)
            if math.isfinite(ref):
                if not math.isfinite(v):
                    self.violate("nonfinite", flag_before, band, "row %d: log-likelihood is %r but the reference is finite (%.10g); scale=%g taxa=%d rescale flag before=%s after=%s" % (r, v, ref, s, self.n, flag_before, flag_after), batched)
                    ok = False
                elif abs(v - ref) > self.rtol * abs(ref):
                    self.violate("accuracy", flag_before, band, "row %d: log-likelihood %.12g differs from the log-space reference %.12g (rel %.3g); scale=%g taxa=%d rescale flag before=%s after=%s" % (r, v, ref, abs(v - ref) / abs(ref), s, self.n, flag_before, flag_after), batched)
                    ok = False
                t = tw[r] if r < len(tw) else float("nan")
                self.stats["twin_checks"] += 1
                if math.isfinite(t) and math.isfinite(v) and abs(t - v) > self.rtol * abs(ref):
                    self.violate("twin", flag_before, band, "row %d: model %.12g and always-rescaled twin %.12g disagree" % (r, v, t), batched)
                    ok = False
        state = "%s|%s|%s|%s|K%d" % ("R" if flag_before else "P", "batched" if batched else "single", "+".join(sorted(set(bands))), "states" if self.recipe.get("tip_states") else "partials", self.recipe.get("categories", 1) + (1 if self.recipe.get("invariant") else 0))
        self.states.append("%s -> %s" % (self.prev_state, state))
        self.prev_state = state
        return ok

    def violate(self, oracle, flag, band, msg, batched=False):
        self.violations.append({"signature": {"engine": "hist_rescale", "oracle": oracle, "rescale_before": str(flag), "band": band,
                                              "batch": "batched" if batched else "single", "tips": "states" if self.recipe.get("tip_states") else "partials",
                                              "zero_rate_category": str(bool(self.recipe.get("invariant"))), "data": self.recipe.get("style", "?"),
                                              # rate categories whose rates differ by orders of magnitude (Weibull shape <= 0.3): the slowest one is all but invariant
                                              "rate_spread": "extreme" if self.recipe.get("categories", 1) > 1 and self.recipe.get("shape_value", 1.0) <= 0.3 else "moderate"},
                                "message": msg})


def execute(scenario, log=None):
    if log is None:
        log = EventLog()
    m = Machine(scenario["recipe"], log)
    for op in scenario["ops"]:
        if not m.apply(op):
            break
    return {"violations": m.violations, "states": m.states, "stats": m.stats, "digest": log.digest()}


# ----------------------------------------------------------------------------
# generation
# ----------------------------------------------------------------------------
def find_scales(machine, kappa):
    """Scale factors that put the smallest per-site likelihood into each band
    (by search on the reference), None when a band is unreachable for this scene."""
    out = {"normal": None, "subnormal": None, "underflow": None}
    LOG_SUB = LIMITS[machine.dtype][1]
    span = LIMITS[machine.dtype][0] - LOG_SUB  # width of the sub-normal band in nats (36.7 double, 16.1 single)
    grid = [0.0004 * (1.45 ** i) for i in range(32)] if machine.recipe["sites"] < 100 else [0.02 * (1.6 ** i) for i in range(14)]
    vals = []
    for s in grid:
        _, mn = machine.reference(s, kappa)
        vals.append((s, mn))
        b = band_of(mn, machine.dtype)
        if out[b] is None or b == "normal":
            out[b] = s if out[b] is None else out[b]
    # long (saturated) branches that still leave every site in the normal range: small and medium trees
    sat = [s for s, mn in vals if band_of(mn, machine.dtype) == "normal"]
    if sat and out["normal"] is not None and sat[-1] > 20 * out["normal"]:
        out["saturated"] = sat[-1]
    # the far end of the grid (branches long enough to forget the data) when it is beyond the normal range:
    # an evaluation there switches the flag from total underflow at every node, not from the band
    if vals and band_of(vals[-1][1], machine.dtype) != "normal":
        out["far"] = vals[-1][0]
    # refine a sub-normal point by bisection between a normal and an underflow scale
    if out["subnormal"] is None and out["normal"] is not None and out["underflow"] is not None:
        lo, hi = out["normal"], out["underflow"]
        for _ in range(30):
            mid = math.sqrt(lo * hi)
            _, mn = machine.reference(mid, kappa)
            b = band_of(mn, machine.dtype)
            if b == "subnormal":
                out["subnormal"] = mid
                break
            if b == "normal":
                lo = mid
            else:
                hi = mid
    # the bottom of the sub-normal band (5e-324 .. 1e-321), where a double keeps only a few bits
    if out["subnormal"] is not None and out["underflow"] is not None:
        lo, hi = out["subnormal"], out["underflow"]
        for _ in range(40):
            mid = math.sqrt(lo * hi)
            _, mn = machine.reference(mid, kappa)
            if LOG_SUB + 0.1 <= mn <= LOG_SUB + 5.0:
                out["deep"] = mid
                break
            if mn > LOG_SUB + 5.0:
                lo = mid
            else:
                hi = mid
    # a scale whose hardest site is 740..744 nats below the hardest site at the `normal` scale: seen
    # from an evaluation at `normal`, it is as far away as the sub-normal band is from 1
    if out["normal"] is not None and out["underflow"] is not None:
        _, mn0 = machine.reference(out["normal"], kappa)
        lo, hi = out["normal"], out["underflow"]
        for _ in range(40):
            mid = math.sqrt(lo * hi)
            _, mn = machine.reference(mid, kappa)
            if mn0 + LOG_SUB + 0.4 <= mn <= mn0 + LOG_SUB + 4.4:
                out["drop"] = mid
                break
            if mn > mn0 + LOG_SUB + 4.4:
                lo = mid
            else:
                hi = mid
    return out


def generate(seed, index, tier):
    st = Streams(run_seed(seed, PROP, index))
    k = st["knobs"]
    taxa = k.choice([50, 120, 250, 330, 340, 400, 520, 560, 700, 1000, 1500]) if tier == "thorough" else k.choice([50, 120, 250, 330, 340, 400, 520, 560, 700])
    style = k.choice(["random", "conserved", "conserved", "clade"])
    if style == "clade":
        taxa = k.choice([1100, 1200]) if k.bernoulli(0.5) or tier == "thorough" else taxa
    # more than 512 distinct patterns (a kernel that works on blocks of patterns must not lose any)
    many_sites = style == "random" and taxa in (250, 330, 340, 400) and k.bernoulli(0.25)
    if many_sites:
        style = "outlier"
    recipe = {"taxa": taxa, "sites": (k.randint(560, 700) if many_sites else k.randint(6, 24)) if taxa < 1000 else k.randint(4, 8), "shape": k.choice(["caterpillar", "balanced", "random"]) if style != "clade" else k.choice(["caterpillar", "balanced"]), "style": style,
              "model": k.choice(["JC69", "HKY"]), "tip_states": k.bernoulli(0.4), "data_seed": k.next64() & 0xFFFFFFFF, "kappa": round(k.uniform(0.5, 6.0), 3),
              "categories": k.choice([1, 1, 2, 4]), "shape_value": round(k.uniform(0.3, 2.0), 3), "invariant": k.choice([None, None, 0.2, 0.5])}
    k2 = st["knobs2"]
    k3 = st["knobs3"]
    if k3.bernoulli(0.25):
        # rate categories spanning orders of magnitude - but not beyond 0.2: below that the slowest category
        # puts fewer than 1e-9 expected substitutions on a short branch, where 0.25 - 0.25 exp(-4t/3) loses
        # its digits to cancellation at any tree size (found by the thorough tier: 50 taxa, rel. 6.6e-8)
        recipe["shape_value"] = round(k3.uniform(0.2, 0.3), 3)
    if k3.bernoulli(0.22) and style != "clade" and not many_sites:
        # single precision: smaller trees reach its (much closer) underflow limits
        recipe["dtype"] = "float32"
        recipe["taxa"] = k3.choice([50, 128, 130, 250, 256, 300])
        if k3.bernoulli(0.4):
            recipe["shape"] = "balanced"
        # stay out of the region of the known shared-scaler finding, which single precision reaches with
        # ~100 taxa and ordinary data: no zero-rate category, no extreme spread of the category rates
        recipe["invariant"] = None
        recipe["shape_value"] = max(recipe["shape_value"], 0.5)
    if style in ("random", "conserved") and not many_sites and k2.bernoulli(0.4):
        recipe["dup_columns"] = k2.randint(1, 6)
    if style != "clade" and k2.bernoulli(0.3):
        recipe["clock"] = True
        recipe["root_height"] = 1.0
        probe = Machine(recipe, EventLog())
        # heights are linear in the root height (all tips at 0): put the shortest branch at ~0.01
        recipe["root_height"] = round(k2.uniform(1.0, 3.0) * 0.01 / max(min(probe.base), 1e-300), 4)
        if max(probe.base) / max(min(probe.base), 1e-300) > 1e4:
            del recipe["clock"], recipe["root_height"]
    m = Machine(recipe, EventLog())
    sc = find_scales(m, recipe["kappa"])
    avail = [b for b in ("normal", "saturated", "subnormal", "deep", "underflow") if sc.get(b) is not None]
    w = st["workload"]
    ops = []
    n_ops = w.randint(6, 14)

    def pick_scale(band=None):
        b = band or w.choice(avail)
        return sc[b] * math.exp(0.02 * w.normal()) if b not in ("subnormal", "deep") else sc[b]

    if style == "clade":
        # switch to rescaling while the identical clade still has large partials, then stretch
        # the branches until that clade underflows on its own, then come back
        ops += [{"op": "set", "scales": [0.0005]}, {"op": "eval"}, {"op": "set", "scales": [120.0]}, {"op": "eval"}, {"op": "eval"},
                {"op": "set", "scales": [0.0005, 120.0]}, {"op": "eval"}]
    for i in range(n_ops):
        u = w.random()
        if u < 0.45:
            if w.bernoulli(0.45):
                rows = w.randint(2, 4)
                scales = [pick_scale() for _ in range(rows)]
                if len(avail) > 1 and w.bernoulli(0.7):
                    scales[0] = pick_scale("normal") if "normal" in avail else scales[0]
                    scales[-1] = pick_scale(avail[-1])
            else:
                scales = [pick_scale()]
            op = {"op": "set", "scales": scales}
            if recipe["model"] == "HKY" and w.bernoulli(0.3):
                op["kappas"] = [round(w.uniform(0.5, 6.0), 3) for _ in scales]
            ops.append(op)
        elif u < 0.93:
            ops.append({"op": "eval"})
        elif u < 0.97:
            ops.append({"op": "force_rescale"})
        else:
            ops.append({"op": "reset_flag"})
    ops.append({"op": "eval"})
    w2 = st["workload2"]
    hard = "deep" if sc.get("deep") is not None else ("subnormal" if sc.get("subnormal") is not None else None)
    if hard and "normal" in avail and w2.bernoulli(0.5):
        # with rescaling on: an easy evaluation, then one that is ~710..745 nats harder per site, in
        # the same batch shape (per-node scaling factors must belong to the evaluation they are used in)
        worst = sc.get("underflow") or sc[hard]
        tail = [{"op": "set", "scales": [worst]}, {"op": "eval"}, {"op": "set", "scales": [sc["normal"]]}, {"op": "eval"}, {"op": "set", "scales": [sc[hard]]}, {"op": "eval"},
                {"op": "set", "scales": [sc["normal"], sc["normal"]]}, {"op": "eval"}, {"op": "set", "scales": [sc["normal"], sc[hard]]}, {"op": "eval"}]
        ops += tail
        if w2.bernoulli(0.5):
            # second switch of the same object: flag reset by hand, then an input that needs rescaling again
            ops += [{"op": "set", "scales": [sc["normal"]]}, {"op": "eval"}, {"op": "reset_flag"}, {"op": "set", "scales": [worst]}, {"op": "eval"},
                    {"op": "set", "scales": [sc[hard]]}, {"op": "eval"}, {"op": "reset_flag"}, {"op": "set", "scales": [sc["normal"], sc[hard]]}, {"op": "eval"}]
        if sc.get("drop") is not None:
            ops += [{"op": "set", "scales": [sc["normal"]]}, {"op": "eval"}, {"op": "eval"}, {"op": "set", "scales": [sc["drop"]]}, {"op": "eval"},
                    {"op": "set", "scales": [sc["normal"], sc["normal"]]}, {"op": "eval"}, {"op": "set", "scales": [sc["drop"], sc["normal"]]}, {"op": "eval"}]
    if sc.get("saturated") is not None and hard and w2.bernoulli(0.6):
        # flag still off: every site in the normal range on saturated branches, then shorter branches
        # on which some columns gain and others fall into the sub-normal band (the total need not drop)
        first = [{"op": "set", "scales": [sc["saturated"]]}, {"op": "eval"}, {"op": "set", "scales": [sc[hard]]}, {"op": "eval"}]
        if w2.bernoulli(0.4):
            first = [{"op": "set", "scales": [sc["saturated"], sc["saturated"]]}, {"op": "eval"}, {"op": "set", "scales": [sc["saturated"], sc[hard]]}, {"op": "eval"}]
        ops = first + ops
    elif sc.get("deep") is not None and w.bernoulli(0.7):
        # the evaluation that has to *decide* the switch sees the bottom of the band: put it first,
        # while the flag is still off (single or as one row of a batch)
        first = [{"op": "set", "scales": [sc["deep"]]}, {"op": "eval"}]
        if "normal" in avail and w.bernoulli(0.4):
            first = [{"op": "set", "scales": [sc["normal"], sc["deep"]]}, {"op": "eval"}]
        ops = first + ops
    if sc.get("far") is not None and w2.bernoulli(0.6 if recipe.get("dtype") == "float32" else 0.25):
        ops = [{"op": "set", "scales": [sc["far"]]}, {"op": "eval"}] + ops
    # make sure the history revisits an easy input after a hard one
    if "normal" in avail and len(avail) > 1:
        ops += [{"op": "set", "scales": [sc[avail[-1]]]}, {"op": "eval"}, {"op": "set", "scales": [sc["normal"]]}, {"op": "eval"}]
    return {"recipe": recipe, "ops": ops, "bands_available": avail}


def minimise(scenario, sig, budget=25):
    tests = [0]

    def fails(ops):
        if tests[0] >= budget:
            return False
        tests[0] += 1
        try:
            r = execute(dict(scenario, ops=ops))
        except Exception:  # noqa: BLE001
            return False
        return any(v["signature"] == sig for v in r["violations"])

    ops = list(scenario["ops"])
    if not fails(ops):
        return scenario
    ops = ddmin(ops, fails, max_tests=budget)
    return dict(scenario, ops=ops)


# ----------------------------------------------------------------------------
# driver interface
# ----------------------------------------------------------------------------
TIMEOUT = {"quick": 1500, "thorough": 8 * 3600}
SELFTEST_N = {"quick": 4, "thorough": 16}


def plan(tier, seed, scale=1.0):
    n = int({"quick": 192, "thorough": 6000}[tier] * scale)
    per = 4 if tier == "quick" else 20
    return [{"kind": "runs", "seed": seed, "lo": lo, "hi": min(n, lo + per), "tier": tier} for lo in range(0, n, per)]


def selftest_indices(tasks, n):
    step = max(1, len(tasks) // n)
    return list(range(0, len(tasks), step))[:n]


def run_task(task):
    from sim import envinfo

    if task["kind"] == "replay":
        r = execute(task["scenario"])
        return {"violations": [dict(v, scenario=task["scenario"], engine=ENGINE) for v in r["violations"]], "digest": r["digest"]}
    log = EventLog()
    agg = {"violations": [], "states": {}, "stats": {}, "runs": 0, "samples": [], "bands": {}}
    seen = set()
    for i in range(task["lo"], task["hi"]):
        sc = generate(task["seed"], i, task["tier"])
        r = execute(sc)
        log.add(i, r["digest"])
        agg["runs"] += 1
        for s in r["states"]:
            agg["states"][s] = agg["states"].get(s, 0) + 1
        for k, v in r["stats"].items():
            agg["stats"][k] = agg["stats"].get(k, 0) + v
        for b in sc["bands_available"]:
            agg["bands"][b] = agg["bands"].get(b, 0) + 1
        if not agg["samples"]:
            agg["samples"].append({"recipe": sc["recipe"], "ops": sc["ops"][:10], "states": r["states"][:6]})
        for v in r["violations"]:
            key = json.dumps(v["signature"], sort_keys=True)
            if key in seen:
                continue
            seen.add(key)
            small = minimise(sc, v["signature"])
            rr = execute(small)
            vv = [x for x in rr["violations"] if x["signature"] == v["signature"]]
            agg["violations"].append({"signature": v["signature"], "message": (vv[0] if vv else v)["message"], "scenario": small if vv else sc, "engine": ENGINE,
                                      "found_by": "seed=%d history=%d" % (task["seed"], i), "environment": envinfo.environment()})
    agg["digest"] = log.digest()
    return agg


def summarize(tasks, results, tier, seed):
    states, stats, bands = {}, {}, {}
    runs = 0
    samples = []
    for r in results:
        runs += r["runs"]
        for k, v in r["states"].items():
            states[k] = states.get(k, 0) + v
        for k, v in r["stats"].items():
            stats[k] = stats.get(k, 0) + v
        for k, v in r["bands"].items():
            bands[k] = bands.get(k, 0) + v
        if len(samples) < 3 and r["samples"]:
            samples.append(r["samples"][0])
    nontrivial = [s for s in states if "subnormal" in s or "underflow" in s or "R|" in s]
    return {
        "evaluations": max(runs, 1),
        "distinct_nontrivial": len(nontrivial),
        "rule": "one evaluation = one history (6..18 operations: set branch-length scale / batch rows / kappa, evaluate, force rescale) on one synthetic scene. Distinct = transition between abstract states (rescale flag before the evaluation, batched or single, set of magnitude bands {normal, subnormal, underflow} of the smallest per-site likelihood over the rows, tip representation); non-trivial = an evaluation with the flag set, or touching the sub-normal or underflow band.",
        "samples": samples,
        "simulated_time": {"evaluations": stats.get("evals", 0), "rows_compared": stats.get("rows", 0)},
        "faults_fired": {"rescale_switches": stats.get("switches", 0), "histories_reaching_band": bands},
        "checks_performed": stats,
        "transition_histogram": dict(sorted(states.items(), key=lambda kv: -kv[1])[:30]),
        "real_code": ["TreeLikelihoodModel._call, calculate_with_tip_partials / calculate_with_tip_states, calculate_treelikelihood_discrete(_rescaled/_safe/_tip_states...)", "UnRootedTreeModel, SitePattern, Alignment, JC69/HKY p_t, ConstantSiteModel"],
        "stubs": ["none"],
    }
