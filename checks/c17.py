"""C17 - a checkpoint restores the whole run state; resuming continues the same run.

Engine restart_sim: incarnations of the real torchtree.torchtree.main() over
SimFS.  For every scene an uninterrupted run A is recorded; then, for *every*
checkpoint the run writes, a chain B = (crash right after that checkpoint,
restart with -c, run to the end) is executed, plus seeded chains mixing
kill-at-iteration, graceful SIGINT, faults inside a checkpoint write and up to
four crash/restart cycles.

Oracles
 1 restart never fails (any exception out of main(-c ...) is a violation)
 2 state identity: deep attribute snapshot of the algorithm object taken when the
   checkpoint is written == snapshot taken at run() entry of the next incarnation
 3 trajectory identity: the parameter states B visits after the resume equal A's
   states position by position (bit-exact) and B performs the same number of steps
"""
from __future__ import annotations

import copy
import json
import sys

from sim import incarnation, refstate, scenes, simfs
from sim.core import EventLog, Rng, Streams, ddmin, hash64, run_seed, tensor_digest
from sim.incarnation import Patch, SimSignalHandler
from sim.simfs import SimCrash, SimFS

PROP = "C17"
ENGINE = "c17"
LEVEL = "fault_enumeration"
ASSUMPTIONS = [
    "stochastic runs are made deterministic functions of position: the torch generator is re-seeded from H(seed, number of completed steps) at the end of every MCMC iteration / before every objective evaluation, so an uninterrupted and a resumed run draw the same numbers at the same position",
    "the iteration counter is judged semantically (number of steps the resumed run performs, labels of logged rows), not by comparing the private attribute",
    "loggers and convergence monitors are outside the state the property lists; their differences are counted as informational only",
    "scratch attribute saved_tensors (overwritten by the next step() before it is read) is excluded from the snapshot",
    "process death model: only SimFS durable bytes survive an incarnation",
]

from sim.scenelib import CKPT, _OPTIMIZERS, _SCHEDULERS, build_spec  # noqa: E402,F401


def worker_init():
    from sim import envinfo

    envinfo.setup()


# ----------------------------------------------------------------------------
# the simulation controller (seams installed around one incarnation)
# ----------------------------------------------------------------------------
class Controller:
    def __init__(self, fs, seed, base, plan, meta, log):
        self.fs = fs
        self.seed = seed
        self.position = base  # completed steps of the whole (multi-incarnation) run
        self.base = base
        self.plan = plan or {"kind": "none"}
        self.meta = meta
        self.log = log
        self.trajectory = []  # (position, {param id: digest})
        self.entry_snapshot = None
        self.entry_params = None
        self.checkpoints = []  # dict(position, snapshot, params, bytes)
        self.saves_started = 0
        self.algo = None
        self.steps_here = 0
        self.loss_calls = {}
        self.sample_rows = None
        self.info = {}
        self.stop_observed = False
        self.inflight = None
        self.save_oplogs = []

    # -- helpers
    def _params(self, algo):
        ps = {}
        cands = list(getattr(algo, "parameters", []))
        # MCMC: every parameter of the target.  Optimizer: only the optimised ones
        # (latent variables of a variational objective are re-drawn before every use).
        src = getattr(algo, "joint", None)
        if src is not None and hasattr(src, "parameters"):
            try:
                cands += list(src.parameters())
            except Exception:  # noqa: BLE001
                pass
        for p in cands:
            if p.id is not None and p.id not in ps:
                ps[p.id] = p
        return ps

    def params_digest(self, algo):
        import torch

        out = {}
        for pid, p in sorted(self._params(algo).items()):
            t = p.tensor
            out[pid] = "%s|%s|nn=%s" % (tensor_digest(t), str(t.dtype), isinstance(t, torch.nn.Parameter))
        return out

    def reseed(self, *tag):
        import torch

        torch.manual_seed(hash64(self.seed, *tag) & 0x7FFFFFFFFFFFFFFF)

    # -- seams
    def on_run_entry(self, algo):
        import torch

        self.algo = algo
        self.entry_snapshot = refstate.snapshot(algo)
        self.entry_params = self.params_digest(algo)
        self.log.add("run_entry", self.base, sorted(self.entry_params.items()))
        ctl = self
        if self.meta["algo"] == "MCMC":
            seen_ops = set()
            for op in algo._operators:
                if id(op) in seen_ops:
                    continue  # the same operator may be listed more than once
                seen_ops.add(id(op))
                orig = op.tune

                def tune(*a, _orig=orig, **k):
                    r = _orig(*a, **k)
                    ctl.on_step_done()
                    return r

                op.tune = tune
        else:
            def post_hook(optimizer, args, kwargs):
                ctl.on_step_done()

            algo.optimizer.register_step_post_hook(post_hook)
            loss = algo.loss
            if loss is not None and hasattr(loss, "_call"):
                orig_call = loss._call

                def _call(*a, **k):
                    # the draws of a stochastic objective are a function of the values it is evaluated
                    # at (not of how many times it has been called: a resumed run evaluates it once
                    # more, for its first progress line, than the uninterrupted run does at that point)
                    purpose = "conv" if "samples" in k else "loss"
                    key = (ctl.position, purpose)
                    ctl.loss_calls[key] = ctl.loss_calls.get(key, 0) + 1
                    ctl.reseed("objective", purpose, sorted(ctl.params_digest(algo).items()))
                    return orig_call(*a, **k)

                loss._call = _call
        self.reseed("step", self.position + 1)

    def close_save_window(self):
        """C18 run-loop sweep: the window of file-system operations that belongs to a checkpoint
        write stays open until the next step of the algorithm (or the end of the run), so that
        whatever the run loop does to the checkpoint *after* save_full_state returned is probed and
        faulted like the write itself."""
        if not getattr(self, "_window_open", False):
            return
        self._window_open = False
        if self.plan["kind"] == "probe":
            self.save_oplogs.append((list(self.fs.oplog), self.fs.user_writes))
            if self.checkpoints:
                self.checkpoints[-1]["bytes"] = self.fs.durable(self.meta["ckpt"])
        self.fs.disarm()

    def on_step_done(self):
        self.close_save_window()
        self.position += 1
        self.steps_here += 1
        d = self.params_digest(self.algo)
        self.trajectory.append((self.position, d))
        self.log.add("step", self.position, sorted(d.items()))
        self.reseed("step", self.position + 1)
        p = self.plan
        if p["kind"] == "iter" and self.steps_here >= p["steps"]:
            self.fs.kill()
            raise SimCrash("kill at iteration")

    def should_stop(self):
        p = self.plan
        stop = p["kind"] == "sigint" and self.steps_here >= p["steps"]
        if stop:
            self.stop_observed = True
        return stop

    def before_save(self, algo):
        self.close_save_window()
        self.saves_started += 1
        snap = refstate.snapshot(algo)
        params = self.params_digest(algo)
        p = self.plan
        self._pre_bytes = self.fs.durable(self.meta["ckpt"])
        self.inflight = {"position": self.position, "snapshot": snap, "params": params}
        if p["kind"] == "fsfault" and self.saves_started == p["n"]:
            self.fs.arm(dict(p["fault"]))
        elif p["kind"] == "probe":
            self.fs.arm(None)  # count the fs operations of every checkpoint write
        return snap, params

    def after_save(self, algo, snap, params):
        if self.plan["kind"] == "probe" or (self.plan["kind"] == "fsfault" and self.fs.armed):
            self._window_open = True
        else:
            self.fs.disarm()
        self.inflight = None
        rec = {"position": self.position, "snapshot": snap, "params": params, "bytes": self.fs.durable(self.meta["ckpt"])}
        self.checkpoints.append(rec)
        self.log.add("checkpoint", self.position, len(rec["bytes"] or b""))
        p = self.plan
        if p["kind"] == "ckpt" and len(self.checkpoints) >= p["n"]:
            self.fs.kill()
            raise SimCrash("kill after checkpoint")


STALE = scenes.RUN + "/older-checkpoint.json"


def run_incarnation(fs, spec, meta, dtype, seed, base, plan, log, use_ckpt, stale=None):
    """One incarnation of main() with all seams installed."""
    import torchtree.inference.mcmc.mcmc as mcmc_mod
    import torchtree.optim.optimizer as opt_mod

    ctl = Controller(fs, seed, base, plan, meta, log)
    fs.full = False  # a new incarnation starts on a disk with free space again
    fs.dead = False
    fs.disarm()
    SimSignalHandler.controller = ctl.should_stop
    with Patch() as patch:
        for mod, cls in ((mcmc_mod, mcmc_mod.MCMC), (opt_mod, opt_mod.Optimizer)):
            patch.set(mod, "SignalHandler", SimSignalHandler)
            orig_run = cls.run
            orig_save = cls.save_full_state

            def run(self, _orig=orig_run):
                ctl.on_run_entry(self)
                try:
                    return _orig(self)
                finally:
                    ctl.close_save_window()

            def save_full_state(self, *a, _orig=orig_save, **k):
                snap, params = ctl.before_save(self)
                try:
                    r = _orig(self, *a, **k)
                except BaseException:
                    fs.disarm()
                    raise
                ctl.after_save(self, snap, params)
                return r

            patch.set(cls, "run", run)
            patch.set(cls, "save_full_state", save_full_state)
        try:
            # randomness consumed while the objects are constructed (e.g. the step-size search
            # of an HMC operator) is owned too: a function of the seed and of the resume position
            ctl.reseed("construct", base)
            ckpt = meta["ckpt"] if use_ckpt else None
            if use_ckpt and stale is not None:
                # `-c older -c newest`: main() applies the files in order, the newest has the last word
                fs.put(STALE, stale)
                ckpt = [STALE, meta["ckpt"]]
            out = incarnation.run_main(fs, copy.deepcopy(spec), checkpoint=ckpt, dtype=dtype)
        finally:
            SimSignalHandler.controller = None
    return ctl, out


# ----------------------------------------------------------------------------
# executing a scenario
# ----------------------------------------------------------------------------
def _viol(oracle, meta, recipe, component, attr, msg, extra=None):
    sig = {"engine": "restart_sim", "oracle": oracle, "algo": meta["algo"], "component": component, "attr": attr}
    if extra:
        sig.update(extra)
    return {"signature": sig, "message": msg}


def _component_of(path, snap):
    """Class name of the innermost object that owns a differing attribute."""
    parts = path.split(".")
    for i in range(len(parts) - 1, 0, -1):
        key = ".".join(parts[:i]) + ".class"
        if key in snap:
            return snap[key][1].strip("'")
    return snap.get(".class", ("v", "?"))[1].strip("'")


def execute(scenario, log=None, baseline=None):
    """scenario = {recipe | spec+meta, dtype, seed, plans:[...]}"""
    if log is None:
        log = EventLog()
    if "spec" in scenario:
        spec, meta = scenario["spec"], scenario["meta"]
    else:
        try:
            spec, meta = build_spec(scenario["recipe"])
        except Exception as e:  # noqa: BLE001
            # the CLI could not emit a configuration for this option vector (C19 territory): excluded workload
            return {"violations": [], "states": [], "stats": {}, "fired": {}, "digest": log.digest(),
                    "excluded": "no specification for this recipe: %s: %s" % (type(e).__name__, str(e)[:200]),
                    "baseline": {"kind": "unbuildable", "exc": type(e).__name__, "tb": None}}
    dtype = scenario.get("dtype", "float64")
    seed = scenario["seed"]
    recipe = scenario.get("recipe", {})
    violations = []
    stats = {"incarnations": 0, "steps": 0, "checkpoints": 0, "restarts": 0, "fs_ops": 0}
    fired = {}
    states = []
    info = {}

    # ---- run A: uninterrupted
    if baseline is None:
        fsA = SimFS()
        ctlA, outA = run_incarnation(fsA, spec, meta, dtype, seed, 0, {"kind": "none"}, EventLog(), False)
        baseline = {"kind": outA.kind, "exc": outA.exc_text, "traj": dict(ctlA.trajectory), "n": ctlA.position,
                    "ckpt_positions": [c["position"] for c in ctlA.checkpoints], "tb": getattr(outA, "traceback", None)}
        stats["incarnations"] += 1
        stats["steps"] += ctlA.position
    if baseline["kind"] == "finished" and baseline["n"] == 0:
        # main() logged a parse error and returned, or the run had nothing to do: nothing to resume
        return {"violations": [], "states": [], "stats": stats, "fired": fired, "digest": log.digest(),
                "excluded": "uninterrupted run performed no step (specification rejected by main(), or zero iterations)", "baseline": baseline}
    if baseline["kind"] != "finished":
        # the scene does not run on this tree: not a C17 matter (excluded workload)
        return {"violations": [], "states": [], "stats": stats, "fired": fired, "digest": log.digest(),
                "excluded": "uninterrupted run failed: %s" % baseline["exc"], "baseline": baseline}
    A = baseline["traj"]
    N = baseline["n"]

    # ---- run B: chain of incarnations
    fs = SimFS(buffer_size=scenario.get("buffer", 8192))
    base = 0
    use_ckpt = False
    plans = list(scenario["plans"]) + [{"kind": "none"}]
    stale_first = any(p.get("stale_first") for p in scenario["plans"])
    last_ckpt_rec = None
    known_bytes = {}
    for j, plan in enumerate(plans):
        stale = None
        if use_ckpt and stale_first and last_ckpt_rec is not None:
            older = [c for c in known_bytes.values() if c["position"] < last_ckpt_rec["position"] and c.get("bytes")]
            if older:
                stale = max(older, key=lambda c: c["position"])["bytes"]
                fired["restart_with_older_checkpoint_first"] = fired.get("restart_with_older_checkpoint_first", 0) + 1
        ctl, out = run_incarnation(fs, spec, meta, dtype, seed, base, plan, log, use_ckpt, stale)
        stats["incarnations"] += 1
        stats["steps"] += ctl.steps_here
        stats["checkpoints"] += len(ctl.checkpoints)
        for k, v in fs.fired.items():
            fired[k] = fired.get(k, 0) + v
        fs.fired = {}
        kind = plan["kind"]
        if kind in ("ckpt", "iter") and out.kind == "crash":
            fired["kill_" + kind] = fired.get("kill_" + kind, 0) + 1
        if kind == "sigint" and out.kind == "finished" and ctl.position < N:
            fired["sigint"] = fired.get("sigint", 0) + 1
        log.add("incarnation", j, plan, out.kind, out.exc_text, ctl.position)
        states.append("%s|%s|%s|resumed=%s|%s" % (meta["algo"], _scene_class(recipe), kind, use_ckpt, out.kind))

        # oracle 1: restart never fails (and neither does a run that was only asked to stop)
        injected = kind == "fsfault" and (isinstance(out.exc, OSError) or "Interrupt" in (out.exc_text or ""))
        if out.kind == "exception" and (ctl.stop_observed or not use_ckpt) and not injected:
            # an exception after a graceful stop, or in an incarnation that did not start
            # from a checkpoint, is not a restart failure: counted, process is dead, go on
            info["non_restart_exception"] = info.get("non_restart_exception", 0) + 1
        elif out.kind == "exception" and not injected:
            comp = _exc_component(out)
            violations.append(_viol("restart_fails", meta, recipe, comp, type(out.exc).__name__,
                                    "incarnation %d (%s) ended with %s\n%s" % (j, "restart from checkpoint" if use_ckpt else "fresh start", out.exc_text, getattr(out, "traceback", "")[-1500:])))
            break

        # oracle 2: state identity at run entry of a resumed incarnation
        if use_ckpt and ctl.entry_snapshot is not None and last_ckpt_rec is not None:
            d = refstate.diff(last_ckpt_rec["snapshot"], ctl.entry_snapshot)
            for path, a, b in d[:40]:
                comp = _component_of(path, last_ckpt_rec["snapshot"] if a is not None else ctl.entry_snapshot)
                violations.append(_viol("state_identity", meta, recipe, comp, refstate.generalise(path),
                                        "after restart %s differs: at checkpoint %s, after restore %s" % (path, _leaf(a), _leaf(b))))
            pd = {k: (last_ckpt_rec["params"].get(k), ctl.entry_params.get(k)) for k in set(last_ckpt_rec["params"]) | set(ctl.entry_params)
                  if last_ckpt_rec["params"].get(k) != ctl.entry_params.get(k)}
            for k, (a, b) in sorted(pd.items())[:10]:
                violations.append(_viol("state_identity", meta, recipe, "Parameter", "tensor/dtype/nn",
                                        "parameter %s differs after restart: %s -> %s" % (k, a, b)))
        elif use_ckpt and ctl.entry_snapshot is None and out.kind != "exception":
            violations.append(_viol("restart_fails", meta, recipe, meta["algo"], "run_not_entered", "restarted incarnation never entered run()"))

        # oracle 3: trajectory identity, position by position
        for pos, dg in ctl.trajectory:
            if pos > N:
                violations.append(_viol("step_count", meta, recipe, meta["algo"], "iteration_counter",
                                        "resumed run performed step %d but the uninterrupted run has only %d steps (resumed from position %d)" % (pos, N, base)))
                break
            if dg != A[pos]:
                bad = sorted(k for k in set(dg) | set(A[pos]) if dg.get(k) != A[pos].get(k))
                violations.append(_viol("trajectory", meta, recipe, meta["algo"], "parameters",
                                        "state at position %d differs from the uninterrupted run (resumed from %d, incarnation %d): parameters %s" % (pos, base, j, bad[:6]),
                                        {"first_divergence_after_resume": str(pos - base) if use_ckpt else "fresh"}))
                break
        if violations:
            break
        if j == len(plans) - 1 or (out.kind == "finished" and kind != "sigint"):
            if out.kind == "finished" and ctl.position != N:
                violations.append(_viol("step_count", meta, recipe, meta["algo"], "iteration_counter",
                                        "chain finished after %d steps but the uninterrupted run has %d" % (ctl.position, N)))
            break

        # ---- next incarnation resumes from whatever is durable
        for c in ctl.checkpoints:
            if c["bytes"] is not None:
                known_bytes[c["bytes"]] = c
        cur = fs.durable(meta["ckpt"])
        if cur is not None and cur not in known_bytes and ctl.inflight is not None and cur != ctl._pre_bytes:
            # a checkpoint write was interrupted after the new file had been installed
            try:
                json.loads(cur.decode())
                known_bytes[cur] = dict(ctl.inflight, bytes=cur)
            except ValueError:
                pass
        if cur is None:
            use_ckpt, base, last_ckpt_rec = False, 0, None
        elif cur in known_bytes:
            use_ckpt, last_ckpt_rec = True, known_bytes[cur]
            base = last_ckpt_rec["position"]
        else:
            # a checkpoint write that was interrupted after the new file was installed
            try:
                json.loads(cur.decode())
                ok = True
            except ValueError:
                ok = False
            if not ok:
                info["unusable_checkpoint"] = True  # C18 territory, not judged here
                break
            info["unknown_checkpoint"] = True  # cannot attribute a position: stop the chain
            break
        stats["restarts"] += 1
    return {"violations": _dedupe(violations), "states": states, "stats": stats, "fired": fired, "digest": log.digest(),
            "baseline": baseline, "info": info}


def _exc_component(out):
    tb = getattr(out, "traceback", "") or ""
    comp = "?"
    for line in tb.splitlines():
        line = line.strip()
        if line.startswith("File") and "/torchtree/" in line:
            comp = line.split("/torchtree/")[-1].split('"')[0] + ":" + line.split(" in ")[-1]
    return comp


def _leaf(x):
    if x is None:
        return "<missing>"
    if x[0] in ("T", "P"):
        return "%s%s~%s#%s" % (x[1], list(x[2]), x[4], x[3][:8])
    return str(x[-1])


def _dedupe(vs):
    seen = set()
    out = []
    for v in vs:
        k = json.dumps(v["signature"], sort_keys=True)
        if k not in seen:
            seen.add(k)
            out.append(v)
    return out


def _scene_class(r):
    if not r:
        return "inline"
    if r["kind"] == "toy_opt":
        return "opt:%s:%s:%s" % (r["algorithm"], r.get("scheduler", "none"), r["loss"])
    if r["kind"] == "toy_mcmc":
        return "mcmc:" + "+".join(r["operators"])
    return "cli:%s:%s" % (r["sub"], " ".join(a for a in r["args"] if not a.startswith("/")))


# ----------------------------------------------------------------------------
# scene swarm
# ----------------------------------------------------------------------------
def scene_recipes(tier, seed, scale):
    """Deterministic list of scene recipes.  The first block is a fixed
    cross-product (every optimiser, every scheduler, every operator/adaptor type
    at least once); the rest is a seeded swarm."""
    out = []
    algs = list(_OPTIMIZERS)
    scheds = list(_SCHEDULERS)
    # every optimiser x {map, ELBO}
    for i, a in enumerate(algs):
        out.append({"kind": "toy_opt", "algorithm": a, "scheduler": scheds[i % len(scheds)], "loss": "map", "iterations": 9, "freq": 2 + i % 2,
                    "param_dtype": "default", "nn": i % 3 == 0, "groups": i % 4 == 1})
        if a != "LBFGS":
            out.append({"kind": "toy_opt", "algorithm": a, "scheduler": scheds[(i + 2) % len(scheds)], "loss": "ELBO", "samples": 2, "iterations": 8, "freq": 3,
                        "param_dtype": "default", "convergence": i % 2 == 0, "entropy": i % 5 == 0})
    # every scheduler with Adam and SGD
    for s in scheds:
        out.append({"kind": "toy_opt", "algorithm": "Adam", "scheduler": s, "loss": "map", "iterations": 10, "freq": 3, "param_dtype": "default", "logger": s == "none"})
        out.append({"kind": "toy_opt", "algorithm": "SGD-momentum", "scheduler": s, "loss": "map", "iterations": 10, "freq": 4, "param_dtype": "torch.float32"})
    # parameter dtype different from the default dtype (state tensors created with the default dtype)
    out.append({"kind": "toy_opt", "algorithm": "NAdam", "scheduler": "none", "loss": "map", "iterations": 6, "freq": 2, "param_dtype": "torch.float32"})
    out.append({"kind": "toy_opt", "algorithm": "ASGD", "scheduler": "none", "loss": "ELBO", "samples": 2, "iterations": 6, "freq": 2, "param_dtype": "torch.float64", "dtype": "float32"})
    out.append({"kind": "toy_opt", "algorithm": "Adam", "scheduler": "StepLR", "loss": "map", "iterations": 6, "freq": 2, "param_dtype": "torch.float32", "nn": True})
    # MCMC operators / adaptors
    op_sets = [["sliding"], ["scaler"], ["dirichlet"], ["sliding", "scaler", "dirichlet", "sliding2"], ["hmc"], ["hmc-adaptive"], ["hmc-dual"],
               ["hmc-mass"], ["hmc-dense"], ["hmc-dense-mass-adaptive"], ["hmc-mass-dual"], ["hmc-mass", "sliding", "scaler"]]
    for i, ops in enumerate(op_sets):
        r = {"kind": "toy_mcmc", "operators": ops, "iterations": 14 if "hmc" in ops[0] else 20, "freq": 3 + i % 3, "logger": i % 2 == 0, "window": 5 if i % 3 == 0 else None}
        out.append(r)
    out.append({"kind": "toy_mcmc", "operators": ["hmc-mass"], "iterations": 14, "freq": 5, "mass_window": True})
    out.append({"kind": "toy_mcmc", "operators": ["hmc-mass"], "iterations": 14, "freq": 5, "mass_swap": 6})
    out.append({"kind": "toy_mcmc", "operators": ["hmc-adaptive"], "iterations": 16, "freq": 4, "use_acceptance_rate": True})
    out.append({"kind": "toy_mcmc", "operators": ["sliding", "scaler"], "iterations": 12, "freq": 4, "disable_adaptation": True})
    out.append({"kind": "toy_mcmc", "operators": ["hmc"], "iterations": 10, "freq": 3, "find_step_size": True})
    # adaptation windows that close before a checkpoint; an operator listed twice
    out.append({"kind": "toy_mcmc", "operators": ["hmc-dual"], "iterations": 16, "freq": 4, "adapt_start": 2, "adapt_end": 6})
    out.append({"kind": "toy_mcmc", "operators": ["hmc-mass-adaptive"], "iterations": 16, "freq": 4, "adapt_start": 3, "adapt_end": 9})
    out.append({"kind": "toy_mcmc", "operators": ["scaler", "sliding", "dirichlet"], "iterations": 24, "freq": 6, "dup_op": True})
    out.append({"kind": "toy_mcmc", "operators": ["sliding", "hmc-adaptive", "scaler"], "iterations": 18, "freq": 5, "dup_op": True})
    out.append({"kind": "toy_mcmc", "operators": ["hmc-mass-adaptive"], "iterations": 12, "freq": 4, "find_step_size": True})
    # ADVI with a normalizing flow (weights of torch modules are the optimised parameters); LBFGS on a stochastic objective
    out.append({"kind": "toy_opt", "algorithm": "Adam", "scheduler": "StepLR", "loss": "flow", "iterations": 9, "freq": 3, "param_dtype": "default"})
    out.append({"kind": "toy_opt", "algorithm": "SGD-momentum", "scheduler": "none", "loss": "flow", "iterations": 8, "freq": 3, "param_dtype": "torch.float32", "dtype": "float32"})
    out.append({"kind": "toy_opt", "algorithm": "LBFGS", "scheduler": "none", "loss": "flow", "iterations": 6, "freq": 2, "param_dtype": "default"})
    out.append({"kind": "toy_opt", "algorithm": "LBFGS", "scheduler": "none", "loss": "ELBO", "samples": 2, "iterations": 6, "freq": 2, "param_dtype": "default"})
    # configurations the CLI emits
    clis = [
        ("mcmc", ["--clock", "strict", "--coalescent", "constant"], 60, 20),
        ("mcmc", ["--clock", "strict", "--coalescent", "skygrid", "--grid", "5", "--cutoff", "10", "-m", "HKY", "-C", "4"], 120, 40),
        ("mcmc", ["-m", "GTR"], 60, 15),
        ("hmc", ["--clock", "strict", "--coalescent", "constant", "--steps", "2", "--step_size", "0.001", "--adapt_step_size", "adaptive"], 6, 2),
        ("hmc", ["--clock", "strict", "--coalescent", "constant", "--steps", "2", "--step_size", "0.001", "--adapt_step_size", "dualaveraging"], 6, 2),
        ("hmc", ["--steps", "2", "--step_size", "0.001", "--adapt_mass_matrix", "--split"], 6, 3),
        ("hmc", ["--steps", "2", "--step_size", "0.001", "--mass_matrix", "dense", "--adapt_mass_matrix"], 6, 3),
        ("map", ["--clock", "strict", "--coalescent", "constant"], 6, 2),
        ("advi", ["--clock", "strict", "--coalescent", "constant"], 6, 2),
        ("advi", ["-m", "HKY"], 6, 3),
        ("advi", ["-q", "realnvp"], 6, 2),
        ("advi", ["-q", "fullrank"], 6, 3),
        ("advi", ["--K_grad_samples", "3"], 6, 2),
        ("advi", ["--divergence", "KLpq"], 6, 3),
    ]
    for sub, args, it, fr in clis:
        out.append({"kind": "cli", "sub": sub, "args": args, "iterations": it, "freq": fr, "convergence": sub == "advi"})
    if tier == "quick" and scale <= 1.0:
        return out
    # seeded swarm
    n = int({"quick": 0, "thorough": 1500}[tier] * scale) if tier == "thorough" else int(40 * (scale - 1))
    rng = Rng(hash64(seed, "c17-swarm"))
    hmc_names = ["hmc", "hmc-adaptive", "hmc-dual", "hmc-mass", "hmc-dense", "hmc-dense-mass", "hmc-mass-adaptive", "hmc-dense-mass-dual", "hmc-mass-dual"]
    for _ in range(n):
        u = rng.random()
        if u < 0.45:
            a = rng.choice(algs)
            loss = rng.choice(["map", "map", "ELBO", "ELBO"]) if a != "LBFGS" else "map"
            out.append({"kind": "toy_opt", "algorithm": a, "scheduler": rng.choice(scheds), "loss": loss, "samples": rng.choice([1, 2, 4]),
                        "iterations": rng.randint(6, 30), "freq": rng.choice([1, 2, 3, 5, 10]), "param_dtype": rng.choice(["default", "default", "torch.float32", "torch.float64"]),
                        "nn": rng.bernoulli(0.3), "groups": rng.bernoulli(0.3), "convergence": rng.bernoulli(0.4), "conv_every": rng.choice([1, 2, 3, 4]),
                        "entropy": rng.bernoulli(0.2), "logger": rng.bernoulli(0.3), "dim": rng.choice([1, 2, 3, 5]), "dtype": rng.choice(["float64", "float64", "float32"])})
        elif u < 0.9:
            k = rng.randint(1, 4)
            ops = rng.sample(["sliding", "sliding2", "scaler", "dirichlet", rng.choice(hmc_names)], k)
            out.append({"kind": "toy_mcmc", "operators": ops, "iterations": rng.randint(6, 40), "freq": rng.choice([1, 2, 3, 5, 10]),
                        "logger": rng.bernoulli(0.5), "log_every": rng.choice([1, 2, 5]), "window": rng.choice([None, 3, 10]), "disable_adaptation": rng.bernoulli(0.15),
                        "mass_freq": rng.choice([2, 4, 10]), "mass_window": rng.bernoulli(0.15), "mass_swap": rng.choice([0, 0, 5, 8]), "use_acceptance_rate": rng.bernoulli(0.2),
                        "leap_steps": rng.randint(1, 5), "dim": rng.choice([1, 2, 3, 5]), "dtype": rng.choice(["float64", "float64", "float32"]),
                        "param_dtype": rng.choice(["default", "default", "torch.float64"]), "find_step_size": rng.bernoulli(0.15),
                        "adapt_start": rng.choice([None, None, 3, 8]), "adapt_end": rng.choice([None, None, 12]), "dup_op": rng.bernoulli(0.15)})
        elif u >= 0.95:
            from sim.scenelib import CLI_MODEL_VECTORS

            sub = rng.choice(["mcmc", "hmc", "advi"])
            args = list(rng.choice(CLI_MODEL_VECTORS))
            if sub == "hmc":
                args += ["--steps", "2", "--step_size", "0.001"] + rng.choice([[], ["--adapt_step_size", "adaptive"], ["--adapt_step_size", "dualaveraging"], ["--adapt_mass_matrix"]])
            if sub == "advi":
                args += rng.choice([[], [], ["-q", "fullrank"], ["-q", "realnvp"], ["--K_grad_samples", "3"], ["--grad_samples", "2"], ["--entropy"], ["--divergence", "KLpq"]])
            it = {"mcmc": 150, "hmc": 6, "advi": 6}[sub]
            out.append({"kind": "cli", "sub": sub, "args": args, "iterations": it, "freq": {"mcmc": 50, "hmc": 2, "advi": 3}[sub], "convergence": rng.bernoulli(0.5)})
        else:
            sub, args, it, fr = rng.choice(clis)
            mult = rng.randint(1, 3)
            out.append({"kind": "cli", "sub": sub, "args": args, "iterations": it * mult, "freq": max(1, fr * mult // rng.choice([1, 2])), "convergence": rng.bernoulli(0.5)})
    for i, r in enumerate(out):
        if r["kind"] == "toy_opt" and i % 9 == 4:
            r["loss"] = "flow"  # weights of torch modules as optimised parameters, every optimiser / scheduler / dtype
    return out


def chains_for(recipe, baseline, seed, idx, extra):
    """Enumerate every checkpoint as a crash point, then seeded extras."""
    chains = []
    cps = baseline["ckpt_positions"]
    N = baseline["n"]
    for c in range(1, len(cps) + 1):
        chains.append([{"kind": "ckpt", "n": c}])
    if len(cps) >= 2:
        # restart given two files: an older checkpoint of the same run first, the newest last
        chains.append([{"kind": "ckpt", "n": len(cps), "stale_first": True}])
        chains.append([{"kind": "ckpt", "n": 2, "stale_first": True}])
    rng = Rng(hash64(seed, "c17-chains", idx))
    for _ in range(extra):
        depth = rng.weighted([1, 2, 3, 4], [4, 3, 2, 1])
        plans = []
        for d in range(depth):
            k = rng.weighted(["ckpt", "iter", "sigint", "fsfault"], [3, 3, 2, 2])
            if k == "ckpt":
                plans.append({"kind": "ckpt", "n": rng.randint(1, max(1, len(cps)))})
            elif k == "fsfault":
                fk = rng.choice(["crash_before", "crash_after", "torn", "enospc", "interrupt"])
                f = {"kind": fk, "op": rng.randint(0, 8)}
                if fk in ("torn", "enospc"):
                    f["op"] = rng.choice([1, 2])
                    f["n"] = rng.randint(0, 200)
                if fk == "interrupt":
                    f = {"kind": "interrupt", "call": rng.randint(0, 60)}
                plans.append({"kind": "fsfault", "n": rng.randint(1, max(1, len(cps))), "fault": f})
            else:
                plans.append({"kind": k, "steps": rng.randint(1, max(1, N))})
        chains.append(plans)
    return chains


# ----------------------------------------------------------------------------
# minimisation
# ----------------------------------------------------------------------------
def minimise(scenario, sig, budget=40):
    tests = [0]

    def fails(sc):
        if tests[0] >= budget:
            return False
        tests[0] += 1
        try:
            r = execute(sc)
        except Exception:  # noqa: BLE001
            return False
        return any(v["signature"] == sig for v in r["violations"])

    best = copy.deepcopy(scenario)
    if len(best["plans"]) > 1:
        p = ddmin(best["plans"], lambda sub: bool(sub) and fails(dict(best, plans=sub)), max_tests=12)
        if p and fails(dict(best, plans=p)):
            best["plans"] = p
    r = best.get("recipe")
    if r:
        for key, val in (("logger", False), ("convergence", False), ("groups", False), ("nn", False), ("window", None), ("scheduler", "none"),
                         ("param_dtype", "default"), ("entropy", False), ("mass_swap", 0), ("mass_window", False)):
            if r.get(key) not in (None, val) and key in r:
                cand = copy.deepcopy(best)
                cand["recipe"][key] = val
                if fails(cand):
                    best = cand
                    r = best["recipe"]
        if r.get("operators") and len(r["operators"]) > 1:
            for op in list(r["operators"]):
                cand = copy.deepcopy(best)
                cand["recipe"]["operators"] = [o for o in r["operators"] if o != op]
                if cand["recipe"]["operators"] and fails(cand):
                    best = cand
                    r = best["recipe"]
        for it in (4, 6, 8):
            if r["iterations"] > it:
                cand = copy.deepcopy(best)
                cand["recipe"]["iterations"] = it
                cand["recipe"]["freq"] = min(r["freq"], 2)
                cand["plans"] = [{"kind": "ckpt", "n": 1}]
                if fails(cand):
                    best = cand
                    break
    return best


# ----------------------------------------------------------------------------
# driver interface
# ----------------------------------------------------------------------------
TIMEOUT = {"quick": 1500, "thorough": 6 * 3600}
SELFTEST_N = {"quick": 6, "thorough": 40}


def plan(tier, seed, scale=1.0):
    recipes = scene_recipes(tier, seed, scale)
    extra = 3 if tier == "quick" else 8
    tasks = [{"kind": "scene", "recipe": r, "seed": seed, "index": i, "extra": extra} for i, r in enumerate(recipes)]
    # cross-validation of the incarnation model against real processes and a real directory
    n_real = 2 if tier == "quick" else 12
    algs = ["Adam", "SGD-momentum", "RMSprop", "Adagrad", "AdamW", "Adamax", "NAdam", "RAdam", "Adadelta", "ASGD", "Rprop", "LBFGS"]
    scheds = list(_SCHEDULERS)
    for j in range(n_real):
        r = {"kind": "toy_opt", "algorithm": algs[j % len(algs)], "scheduler": scheds[(j + 3) % len(scheds)], "loss": "map", "iterations": 400, "freq": 40, "param_dtype": "default"}
        tasks.append({"kind": "real", "recipe": r, "seed": seed, "index": 100000 + j, "kill_after_checkpoints": 2 + j % 4})
    return tasks


def run_real(task):
    """The same question asked of real processes: torchtree run as a subprocess on a real
    scratch directory, SIGKILLed once the n-th checkpoint has been written, restarted with -c;
    the parameters of the last checkpoint must equal those of an uninterrupted process."""
    import os
    import shutil
    import signal
    import subprocess
    import tempfile
    import time

    recipe = task["recipe"]
    spec, meta = build_spec(recipe)
    tmp = tempfile.mkdtemp(prefix="verif_c17_real_", dir=os.environ.get("TMPDIR", "/tmp"))
    out = {"violations": [], "states": {}, "stats": {"real_processes": 0}, "fired": {}, "runs": 1, "samples": [], "excluded": None, "scene": "real:" + _scene_class(recipe)}
    try:
        def config(d):
            s = json.loads(json.dumps(spec).replace(scenes.RUN, d))
            path = os.path.join(d, "config.json")
            with open(path, "w") as fp:
                json.dump(s, fp)
            return path, os.path.join(d, "checkpoint.json")

        env = dict(os.environ, OMP_NUM_THREADS="1", MKL_NUM_THREADS="1")
        env.pop("TORCHTREE_VERIF", None)
        if os.environ.get("VERIF_REPO"):
            env["PYTHONPATH"] = os.environ["VERIF_REPO"] + os.pathsep + env.get("PYTHONPATH", "")
        cmd = [sys.executable, "-c", "import torch; torch.set_num_threads(1); from torchtree.torchtree import main; main()"]

        def params_of(ck):
            with open(ck) as fp:
                d = json.load(fp)
            return d[0].get("iteration"), {e["id"]: e["tensor"] for e in d if str(e.get("type", "")).endswith("Parameter")}

        da = os.path.join(tmp, "a")
        os.makedirs(da)
        ca, cka = config(da)
        subprocess.run(cmd + ["-s", "1", ca], cwd=da, env=env, capture_output=True, timeout=600, check=True)
        out["stats"]["real_processes"] += 1
        ita, pa = params_of(cka)
        db = os.path.join(tmp, "b")
        os.makedirs(db)
        cb, ckb = config(db)
        p = subprocess.Popen(cmd + ["-s", "1", cb], cwd=db, env=env, stdout=subprocess.DEVNULL, stderr=subprocess.DEVNULL)
        out["stats"]["real_processes"] += 1
        seen, last = 0, None
        t0 = time.time()
        while p.poll() is None and time.time() - t0 < 300:
            try:
                st = os.stat(ckb)
                sig = (st.st_mtime_ns, st.st_ino)
                if sig != last:
                    last = sig
                    seen += 1
                    if seen >= task["kill_after_checkpoints"]:
                        p.send_signal(signal.SIGKILL)
                        out["fired"]["real_sigkill"] = 1
                        break
            except FileNotFoundError:
                pass
        p.wait()
        if not os.path.exists(ckb):
            out["excluded"] = "no checkpoint present after the kill (outside C17; see C18)"
            return out
        r = subprocess.run(cmd + ["-s", "1", "-c", ckb, cb], cwd=db, env=env, capture_output=True, text=True, timeout=600)
        out["stats"]["real_processes"] += 1
        if r.returncode != 0:
            out["violations"].append({"signature": {"engine": "restart_sim", "oracle": "restart_fails", "algo": "Optimizer", "component": "real-process", "attr": "exit"},
                                      "message": "real process restarted from a checkpoint exited %d: %s" % (r.returncode, r.stderr[-600:])})
            return out
        itb, pb = params_of(ckb)
        if ita != itb or pa != pb:
            bad = sorted(k for k in set(pa) | set(pb) if pa.get(k) != pb.get(k))
            out["violations"].append({"signature": {"engine": "restart_sim", "oracle": "trajectory", "algo": "Optimizer", "component": "real-process", "attr": "final-checkpoint"},
                                      "message": "real processes: final checkpoint after kill+restart (iteration %s) differs from the uninterrupted one (iteration %s) in %s" % (itb, ita, bad[:4])})
        out["states"]["Optimizer|real:%s|sigkill|resumed=True|finished" % _scene_class(recipe)] = 1
        out["samples"].append({"recipe": recipe, "real_process": True, "kill_after_checkpoints": task["kill_after_checkpoints"]})
    finally:
        shutil.rmtree(tmp, ignore_errors=True)
    out["digest"] = "real"
    return out


def selftest_indices(tasks, n):
    idx = [i for i, t in enumerate(tasks) if t["kind"] == "scene"]
    step = max(1, len(idx) // n)
    return idx[::step][:n]


def run_task(task):
    from sim import envinfo

    if task["kind"] == "replay" and "real" in task["scenario"]:
        r = run_real(task["scenario"]["real"])
        return {"violations": [dict(v, scenario=task["scenario"], engine=ENGINE) for v in r["violations"]], "digest": "real", "excluded": r.get("excluded")}
    if task["kind"] == "replay":
        r = execute(task["scenario"])
        return {"violations": [dict(v, scenario=task["scenario"], engine=ENGINE) for v in r["violations"]], "digest": r["digest"],
                "excluded": r.get("excluded")}
    if task["kind"] == "real":
        r = run_real(task)
        r["violations"] = [dict(v, scenario={"real": task}, engine=ENGINE, found_by="real-process cross-validation", environment=envinfo.environment()) for v in r["violations"]]
        return r
    recipe = task["recipe"]
    seed = task["seed"]
    dtype = recipe.get("dtype", "float64")
    log = EventLog()
    agg = {"violations": [], "states": {}, "stats": {}, "fired": {}, "runs": 0, "samples": [], "excluded": None, "scene": _scene_class(recipe)}
    base_sc = {"recipe": recipe, "dtype": dtype, "seed": hash64(seed, "c17", task["index"]) & 0xFFFFFFFF, "plans": []}
    r0 = execute(dict(base_sc, plans=[]), log)
    baseline = r0["baseline"]
    if r0.get("excluded"):
        agg["excluded"] = r0["excluded"] + (("\n" + (baseline.get("tb") or "")[-800:]) if baseline.get("tb") else "")
        agg["digest"] = log.digest()
        return agg
    chains = chains_for(recipe, baseline, seed, task["index"], task["extra"])
    seen = set()
    for plans in chains:
        sc = dict(base_sc, plans=plans)
        r = execute(sc, log, baseline=baseline)
        agg["runs"] += 1
        for s in r["states"]:
            agg["states"][s] = agg["states"].get(s, 0) + 1
        for k, v in r["stats"].items():
            agg["stats"][k] = agg["stats"].get(k, 0) + v
        for k, v in r["fired"].items():
            agg["fired"][k] = agg["fired"].get(k, 0) + v
        if not agg["samples"]:
            agg["samples"].append({"recipe": recipe, "plans": plans, "states": r["states"]})
        for v in r["violations"]:
            key = json.dumps(v["signature"], sort_keys=True)
            if key in seen:
                continue
            seen.add(key)
            small = minimise(sc, v["signature"])
            rr = execute(small)
            vv = [x for x in rr["violations"] if x["signature"] == v["signature"]]
            final = small if vv else sc
            spec, meta = build_spec(final["recipe"])
            final = dict(final, spec=spec, meta=meta)
            agg["violations"].append({"signature": v["signature"], "message": (vv[0] if vv else v)["message"], "scenario": final, "engine": ENGINE,
                                      "found_by": "scene %d chain %s" % (task["index"], json.dumps(plans)), "environment": envinfo.environment()})
    agg["digest"] = log.digest()
    return agg


def summarize(tasks, results, tier, seed):
    states, stats, fired = {}, {}, {}
    runs = 0
    samples = []
    excluded = []
    scenes_run = []
    for t, r in zip(tasks, results):
        runs += r["runs"]
        if r.get("excluded"):
            excluded.append({"scene": r["scene"], "reason": r["excluded"][:300]})
        else:
            scenes_run.append(r["scene"])
        for k, v in r["states"].items():
            states[k] = states.get(k, 0) + v
        for k, v in r["stats"].items():
            stats[k] = stats.get(k, 0) + v
        for k, v in r["fired"].items():
            fired[k] = fired.get(k, 0) + v
        if len(samples) < 3 and r["samples"]:
            samples.append(r["samples"][0])
    nontrivial = [s for s in states if "resumed=True" in s]
    return {
        "evaluations": max(runs, 1),
        "distinct_nontrivial": len(nontrivial),
        "rule": "one evaluation = one chain of incarnations of torchtree.main() over SimFS for one scene (every checkpoint of every scene is used once as the crash point = enumerated; seeded extras add kill-at-iteration, SIGINT, faults inside a checkpoint write and chains of up to 4 restarts). Distinct = (algorithm, scene class = optimiser/scheduler/loss or operator set or CLI option vector, crash kind, resumed?, outcome); non-trivial = the incarnation was resumed from a checkpoint.",
        "samples": samples,
        "exhaustive": False,
        "scenes": len(scenes_run),
        "scene_classes": sorted(set(scenes_run)),
        "excluded_workload": excluded,
        "simulated_time": {"incarnations": stats.get("incarnations", 0), "steps": stats.get("steps", 0), "checkpoints_written": stats.get("checkpoints", 0), "restarts": stats.get("restarts", 0)},
        "faults_fired": fired,
        "real_code": ["torchtree.torchtree.main", "process_objects / from_json of every class in the scene", "MCMC.run", "Optimizer._run/_run_closure", "all operators/adaptors", "torch.optim.*, lr_scheduler.*", "save_parameters, ParameterEncoder, TensorDecoder, update_parameters, load_state_dict"],
        "stubs": ["file system (SimFS)", "SIGINT handler", "process boundary (objects dropped between incarnations)", "torch generator re-seeded by position"],
    }
