"""C11 - cached values never go stale.

Engine hist_cache: a model graph built by the real process_objects from a
scene; a seeded scheduler interleaves parameter updates (direct assignment,
through views / concatenations / transformed parameters, in-place steps plus
notification, draws by distributions, proposals and rejections by real
operators, requires_grad toggles) with reads of observables.  Which subset of
observables is read between which updates is the schedule: every read clears
dirty flags, so different read orders reach different flag vectors.  Faults:
an evaluation aborted half-way by an exception raised in a sub-model.

Oracle: every read equals the same observable of a model freshly built from
JSON with the current base parameter values; a valid update never raises.
"""
from __future__ import annotations

import copy
import json
import math
import traceback

from sim import fresh as freshlib
from sim import scenes
from sim.core import EventLog, Rng, Streams, ddmin, hash64, run_seed, tensor_digest

PROP = "C11"
ENGINE = "c11"
LEVEL = "exploration"
ASSUMPTIONS = [
    "the oracle is the same model class freshly built from JSON with the current base parameter values (real torchtree code, fresh object graph): C11 is about caching, not about the value itself",
    "an update is 'valid' when it keeps dtype and shape and stays inside the declared domain of the parameter; such an update must not raise",
    "'both raise the same exception class' counts as agreement between the running model and the fresh one",
    "objects without an id cannot be addressed from outside and are observed only through their owners",
]

RTOL = 1e-10
ATOL = 1e-12


def worker_init():
    from sim import envinfo

    envinfo.setup()


# ----------------------------------------------------------------------------
# observables
# ----------------------------------------------------------------------------
# distributions whose density call returns the density *of their last draw* (it uses the log
# Jacobian stored by sample()/rsample()): a function of hidden sampling state, not of the parameter
# values, so a freshly built copy has no value to compare with.  They are read through the
# variational objective that draws from them and evaluates them in one call.
LAST_DRAW_DENSITIES = ("NormalizingFlow", "RealNVP")


def list_observables(dic):
    """(id, accessor) pairs in creation order (children before parents)."""
    from torchtree.core.abstractparameter import AbstractParameter
    from torchtree.core.model import CallableModel, Model
    from torchtree.core.parameter import Parameter

    out = []
    for oid, obj in dic.items():
        if oid is None:
            continue
        if isinstance(obj, AbstractParameter):
            if type(obj) is not Parameter:
                out.append((oid, "tensor"))
                if callable(obj):
                    out.append((oid, "call"))
            continue
        if isinstance(obj, CallableModel) and type(obj).__name__ not in LAST_DRAW_DENSITIES:
            out.append((oid, "call"))
        if isinstance(obj, Model):
            for acc in ("rates", "probabilities", "branch_lengths", "node_heights", "q", "frequencies", "precision_matrix", "p_t"):
                if hasattr(type(obj), acc):
                    out.append((oid, acc))
            out.append((oid, "sample_shape"))
    return out


def read(obj, acc):
    import torch

    if acc == "call":
        return obj()
    if acc == "tensor":
        return obj.tensor
    if acc == "p_t":
        return obj.p_t(torch.tensor([[0.1], [0.7]], dtype=torch.get_default_dtype()))
    if acc == "sample_shape":
        return torch.tensor(list(obj.sample_shape), dtype=torch.int64)
    v = getattr(obj, acc)
    if callable(v) and not isinstance(v, torch.Tensor) and not hasattr(v, "tensor"):
        v = v()
    if hasattr(v, "tensor") and not isinstance(v, torch.Tensor):
        v = v.tensor
    return v


def observe(obj, acc, seed=12345):
    """('ok', tensor) | ('raise', exception class name).  The torch generator is
    seeded before every read so that stochastic observables (variational
    objectives draw samples) are comparable between the running and the fresh model."""
    import torch

    torch.manual_seed(seed)
    try:
        v = read(obj, acc)
        if not isinstance(v, torch.Tensor):
            v = torch.as_tensor(v)
        return ("ok", v.detach().clone())
    except Exception as e:  # noqa: BLE001
        return ("raise", type(e).__name__, str(e)[:160])


def same(a, b):
    import torch

    if a[0] != b[0]:
        return False
    if a[0] == "raise":
        return a[1] == b[1]
    x, y = a[1], b[1]
    if x.shape != y.shape:
        # a value cached before its inputs acquired a sample dimension (e.g. the constant
        # [1.0] vs [[1.0], [1.0]]) is the same value wherever it is used if both broadcast to
        # one shape and agree there; rows that ought to differ would not survive this test
        try:
            x, y = torch.broadcast_tensors(x, y)
        except RuntimeError:
            return False
    if x.dtype != y.dtype:
        return False
    if x.numel() == 0:
        return True
    if x.dtype.is_floating_point:
        return bool(torch.allclose(x, y, rtol=RTOL, atol=ATOL, equal_nan=True))
    return bool(torch.equal(x, y))


def flag_vector(dic):
    bits = []
    for oid, obj in dic.items():
        for name in ("lp_needs_update", "need_update", "_need_update", "needs_update", "heights_need_update", "branch_lengths_need_update", "rescale"):
            v = getattr(obj, "__dict__", {}).get(name)
            if isinstance(v, bool):
                bits.append("1" if v else "0")
    return "".join(bits)


# ----------------------------------------------------------------------------
# scenes
# ----------------------------------------------------------------------------
def build_scene(recipe):
    """-> (model specification, {param id: domain})"""
    from checks import c11_scenes

    return c11_scenes.build(recipe)


# ----------------------------------------------------------------------------
# the history machine
# ----------------------------------------------------------------------------
class History:
    def __init__(self, spec, domains, log):
        self.spec = spec
        self.domains = domains
        self.log = log
        self.dic = freshlib.build(spec)
        self.obs = list_observables(self.dic)
        self.violations = []
        self.stats = {"ops": 0, "updates": 0, "reads": 0, "fresh_builds": 0, "aborted_evals": 0, "agree_raise": 0}
        self.flag_states = set()
        self.classes_touched = {}
        self._fresh_key = None
        self._fresh = None
        self.oracle = True
        self.anon_overrides = {}
        self.last_update = "none"
        self.last_update_kind = "none"
        self.operators = {}

    # ---- reference
    def base_values(self):
        return freshlib.snapshot_values(self.dic)

    def fresh(self):
        vals = self.base_values()
        key = tuple(sorted((k, tensor_digest(v)) for k, v in vals.items())) + tuple(sorted((str(k), tensor_digest(v)) for k, v in self.anon_overrides.items()))
        if key != self._fresh_key:
            try:
                self._fresh = freshlib.build(freshlib.substitute(self.spec, vals))
                # parameters without an id (numbers in a distribution's `parameters` block) cannot be
                # addressed in the specification: the same values are assigned to the unevaluated copy
                for (oid, pkey), t in self.anon_overrides.items():
                    self._fresh[oid].dict_parameters[pkey].tensor = t.clone()
            except Exception:  # noqa: BLE001
                # the current values cannot be given to a constructor (e.g. a mix of batched
                # and unbatched shapes left behind by draws): no reference exists for this state
                self._fresh = None
                self.stats["unbuildable_states"] = self.stats.get("unbuildable_states", 0) + 1
            self._fresh_key = key
            self.stats["fresh_builds"] += 1
        return self._fresh

    def _after_fresh_read(self, fr):
        """A stochastic observable writes its draws into base parameters: if the
        fresh model no longer holds the running model's values, drop it."""
        vals = freshlib.snapshot_values(fr)
        key = tuple(sorted((k, tensor_digest(v)) for k, v in vals.items()))
        if key != self._fresh_key:
            self._fresh_key = None

    def violate(self, oracle, cls, acc, msg):
        self.violations.append({"signature": {"engine": "hist_cache", "oracle": oracle, "class": cls, "accessor": acc, "via": self.last_update_kind}, "message": msg})

    # ---- reads
    def check_read(self, oid, acc, diagnose=True):
        import torch

        self.stats["reads"] += 1
        sysv = observe(self.dic[oid], acc)
        if not self.oracle:
            return True
        if self.stats["reads"] % 25 == 0:
            # every 25th reference value comes from a copy on which nothing else has been read: a
            # defect through which one evaluation corrupts the cached value of another would
            # otherwise hit the reference in the same way (same reads, same order)
            self._fresh_key = None
            self.stats["pristine_reference_reads"] = self.stats.get("pristine_reference_reads", 0) + 1
        fr = self.fresh()
        if fr is None:
            self.stats["unjudged_reads"] = self.stats.get("unjudged_reads", 0) + 1
            return True
        with torch.no_grad():
            refv = observe(fr[oid], acc)
        self._after_fresh_read(fr)
        cls = type(self.dic[oid]).__name__
        self.log.add("read", oid, acc, sysv[0], tensor_digest(sysv[1]) if sysv[0] == "ok" else sysv[1])
        self.classes_touched[cls] = self.classes_touched.get(cls, 0) + 1
        if sysv[0] == "raise" and refv[0] == "raise" and sysv[1] == refv[1]:
            self.stats["agree_raise"] += 1
        if same(sysv, refv):
            return True
        if diagnose:
            first = self.diagnose()
            if first is not None:
                oid, acc, sysv, refv = first
                cls = type(self.dic[oid]).__name__
        oracle = "stale" if sysv[0] == "ok" and refv[0] == "ok" else "eval_raises"
        self.violate(oracle, cls, acc, "%s.%s of the running model = %s but the freshly built model with the same parameter values gives %s (last update: %s)" % (
            oid, acc, _show(sysv), _show(refv), self.last_update))
        return False

    def diagnose(self):
        """First observable, in creation order, that disagrees with the fresh model."""
        import torch

        for oid, acc in self.obs:
            sysv = observe(self.dic[oid], acc)
            fr = self.fresh()
            if fr is None:
                return None
            with torch.no_grad():
                refv = observe(fr[oid], acc)
            self._after_fresh_read(fr)
            if not same(sysv, refv):
                return oid, acc, sysv, refv
        return None

    # ---- operations
    def apply(self, op):
        import torch

        self.stats["ops"] += 1
        kind = op["op"]
        self.flag_states.add((flag_vector(self.dic), kind))
        if kind == "eval":
            for oid, acc in op["targets"]:
                if not self.check_read(oid, acc):
                    return False
            return True
        if kind == "abort_eval":
            return self.abort_eval(op)
        self.stats["updates"] += 1
        target = self.dic.get(op.get("id"))
        self.last_update = "%s on %s(%s)" % (kind, type(target).__name__, op.get("id") if kind != "assign_many" else "S=%s" % op.get("S"))
        self.last_update_kind = self.role_of(target) if kind not in ("assign_many", "assign_anon") else {"assign_many": "batch", "assign_anon": "anonymous-parameter"}[kind]
        if kind == "assign_anon":
            self.last_update = "assign_anon on %s.%s" % (op["owner"], op["key"])
        vals_before = self.base_values()
        try:
            self.apply_raw(op)
        except Exception as e:  # noqa: BLE001 - "a parameter update never raises"
            tb = traceback.format_exc()
            # "not supported by design" (e.g. assignment through a transform without inverse)
            # is not a valid update; anything else on a well-formed update is judged
            shape_change_in_place = (
                isinstance(e, RuntimeError)
                and any(m in str(e) for m in ("shape mismatch", "cannot be broadcast", "must match the size", "expanded size", "number of sizes provided"))
                and kind in ("draw", "assign_view", "assign_cat", "assign_transformed")
                and writes_in_place(target.x if kind == "draw" else target)
            )
            # a value of another (batch) shape cannot be written in place through a view: torch
            # refuses it, on a fresh model too
            if (isinstance(e, NotImplementedError) or shape_change_in_place) and self.invalid_on_fresh(op, e, vals_before):
                self.stats["invalid_update_agree"] = self.stats.get("invalid_update_agree", 0) + 1
                self.log.add("invalid_update", kind, op.get("id"), type(e).__name__)
                self._fresh_key = None
                return True
            where = "?"
            for line in tb.splitlines():
                line = line.strip()
                if line.startswith("File") and "/torchtree/" in line and not line.endswith("__getattr__"):
                    where = line.split("/torchtree/")[-1].split('"')[0] + ":" + line.split(" in ")[-1]
            self.violations.append({"signature": {"engine": "hist_cache", "oracle": "update_raises", "class": type(e).__name__, "accessor": where, "via": self.last_update_kind},
                                    "message": "update %s raised %s: %s" % (self.last_update, type(e).__name__, str(e)[:200])})
            return False
        vals_after = self.base_values()
        self.log.add("update", kind, op.get("id"), sorted((k, tensor_digest(v)) for k, v in vals_after.items()))
        import torch

        if any(v.dtype.is_floating_point and not bool(torch.isfinite(v).all()) for v in vals_after.values()):
            # the update pushed a parameter out of every domain (NaN / inf, e.g. a draw that the
            # inverse transform cannot represent): the property quantifies over valid values only
            self.stats["left_domain"] = self.stats.get("left_domain", 0) + 1
            return False
        return True

    def apply_raw(self, op):
        import torch

        kind = op["op"]
        target = self.dic.get(op.get("id"))
        if True:
            if kind in ("assign", "assign_view", "assign_cat", "assign_transformed"):
                t = torch.tensor(op["values"], dtype=getattr(torch, op["dtype"]))
                target.tensor = t
            elif kind == "assign_anon":
                t = torch.tensor(op["values"], dtype=getattr(torch, op["dtype"]))
                self.dic[op["owner"]].dict_parameters[op["key"]].tensor = t
                self.anon_overrides[(op["owner"], op["key"])] = t.clone()
            elif kind == "assign_many":
                # switch every updatable parameter between [n] and [S, n] in one go
                for pid in sorted(op["values"]):
                    self.dic[pid].tensor = torch.tensor(op["values"][pid], dtype=getattr(torch, op["dtypes"][pid]))
            elif kind == "inplace":
                with torch.no_grad():
                    target.tensor.add_(torch.tensor(op["delta"], dtype=target.tensor.dtype))
                target.fire_parameter_changed()
            elif kind == "requires_grad":
                target.requires_grad = op["value"]
            elif kind == "draw":
                torch.manual_seed(op["seed"])
                if op["rsample"]:
                    target.rsample(torch.Size(op["shape"]))
                else:
                    target.sample(torch.Size(op["shape"]))
            elif kind == "propose":
                torch.manual_seed(op["seed"])
                oper = self.get_operator(op)
                oper.step()
                if op["then"] == "accept":
                    oper.accept()
                else:
                    oper.reject()
            else:
                raise ValueError("unknown op " + kind)

    def role_of(self, target):
        """Class of the updated object, plus how it is used: as the parameter of a
        parametric transform, below a derived parameter, or directly by models."""
        from torchtree.core.abstractparameter import AbstractParameter
        from torchtree.core.parameter import TransformedParameter, ViewParameter

        cls = type(target).__name__
        roles = set()
        for o in self.dic.values():
            if isinstance(o, TransformedParameter):
                for v in vars(o.transform).values():
                    if isinstance(v, AbstractParameter) and (v is target or getattr(target, "id", None) in base_ids_of(v)):
                        roles.add("transform-parameter")
            if isinstance(o, ViewParameter) and o is target and not type(o.parameter).__name__ == "Parameter":
                roles.add("view-of-" + type(o.parameter).__name__)
        return cls + ("[" + ",".join(sorted(roles)) + "]" if roles else "")

    def invalid_on_fresh(self, op, exc, vals_before):
        """An update is valid iff the same update succeeds on a freshly built model
        holding the values the running model had before the update."""
        try:
            twin_dic = freshlib.build(freshlib.substitute(self.spec, vals_before))
        except Exception:  # noqa: BLE001 - no reference exists for this state: cannot be judged
            return True
        try:
            twin = History.__new__(History)
            twin.spec, twin.domains, twin.log = self.spec, self.domains, EventLog()
            twin.dic = twin_dic
            twin.obs, twin.violations, twin.stats = [], [], {"ops": 0, "updates": 0}
            twin.flag_states, twin.classes_touched = set(), {}
            twin._fresh_key, twin._fresh, twin.last_update, twin.operators = None, None, "", {}
            twin.last_update_kind = ""
            twin.anon_overrides = {}
            twin._twin = True
            twin.apply_raw(copy.deepcopy(op))
            return False
        except Exception as e2:  # noqa: BLE001
            return type(e2).__name__ == type(exc).__name__

    def get_operator(self, op):
        from torchtree.inference.mcmc.operator import DirichletOperator, ScalerOperator, SlidingWindowOperator

        key = (op["operator"], op["id"])
        if key not in self.operators:
            p = self.dic[op["id"]]
            if op["operator"] == "sliding":
                self.operators[key] = SlidingWindowOperator("op", [p], 1.0, 0.24, op.get("tuning", 0.3))
            elif op["operator"] == "scaler":
                self.operators[key] = ScalerOperator("op", [p], 1.0, 0.24, op.get("tuning", 0.7))
            else:
                self.operators[key] = DirichletOperator("op", [p], 1.0, 0.24, op.get("tuning", 100.0))
        return self.operators[key]

    def abort_eval(self, op):
        """Fault: evaluate `outer` while the evaluation of one of its inputs raises
        (what a ValueError from a support check or a LinAlgError does in a real run)."""
        self.stats["aborted_evals"] += 1
        inner = self.dic[op["inner"]]
        orig = inner._call
        state = {"n": 0}

        class Injected(RuntimeError):
            pass

        def boom(*a, **k):
            state["n"] += 1
            if op.get("after"):
                orig(*a, **k)
            raise Injected("injected failure in %s" % op["inner"])

        inner._call = boom
        try:
            # observe() seeds the generator like every other read: if the injected failure is not
            # reached (the outer model never calls this input) the read completes and its value is cached
            observe(self.dic[op["outer"]], op["outer_acc"])
        finally:
            del inner.__dict__["_call"]
        if state["n"]:
            self.stats["aborted_evals_fired"] = self.stats.get("aborted_evals_fired", 0) + 1
        self.log.add("abort_eval", op["outer"], op["inner"], state["n"])
        return True


def _show(v):
    if v[0] == "raise":
        return "raise %s(%s)" % (v[1], v[2] if len(v) > 2 else "")
    t = v[1]
    return "%s%s %s%s" % (t.reshape(-1)[:4].tolist(), "" if t.numel() <= 4 else "...", str(t.dtype).split(".")[-1], list(t.shape))


# ----------------------------------------------------------------------------
# generation of histories
# ----------------------------------------------------------------------------
def base_ids_of(o):
    """ids of the base Parameters below a derived parameter."""
    from torchtree.core.parameter import CatParameter, Parameter, ViewParameter

    if type(o) is Parameter:
        return [o.id] if o.id is not None else []
    if isinstance(o, ViewParameter):
        return base_ids_of(o.parameter)
    if isinstance(o, CatParameter):
        out = []
        for p in o._parameter_container.params():
            out += base_ids_of(p)
        return out
    out = []
    for p in o.parameters():
        if p is not o:
            out += base_ids_of(p)
    return out


def writes_in_place(o):
    """Does assigning to this parameter write in place into a base tensor?"""
    from torchtree.core.parameter import CatParameter, Parameter, TransformedParameter, ViewParameter

    if isinstance(o, ViewParameter):
        return True
    if isinstance(o, CatParameter):
        return any(writes_in_place(p) for p in o._parameter_container.params())
    if isinstance(o, TransformedParameter):
        return writes_in_place(o.x)
    return False


def perturb(rng, t, domain, scale):
    """New valid value for a base parameter (same shape, batched or not), as nested lists."""
    import torch

    x = t.detach().to(torch.float64)
    noise = torch.tensor([rng.normal() for _ in range(x.numel())], dtype=torch.float64).reshape(x.shape) * scale
    if domain == "real":
        new = x + noise
    elif domain == "positive":
        new = x.clamp_min(1e-12) * noise.exp()
    elif domain == "unit":
        xc = x.clamp(1e-9, 1 - 1e-9)
        new = torch.sigmoid(torch.log(xc / (1 - xc)) + noise)
    elif domain == "simplex":
        w = x.clamp_min(1e-12) * noise.exp()
        new = w / w.sum(-1, keepdim=True)  # every row stays on the simplex
    elif domain == "ordered":
        # a vector with order constraints between its entries (node heights above tips at 0):
        # one common positive factor keeps every constraint
        new = x * math.exp(scale * rng.normal())
    elif domain.startswith("above:"):
        lo = float(domain.split(":")[1])
        new = lo + (x - lo).clamp_min(1e-9) * noise.exp()
    else:
        raise ValueError(domain)
    return new.to(t.dtype).tolist()


def generate(seed, index, tier):
    from checks import c11_scenes

    st = Streams(run_seed(seed, PROP, index))
    k = st["knobs"]
    recipe = c11_scenes.pick(k)
    spec, domains = build_scene(recipe)
    dic = freshlib.build(spec)
    obs = list_observables(dic)
    base = freshlib.base_parameters(dic)
    from torchtree.core.parameter import CatParameter, TransformedParameter, ViewParameter
    from torchtree.distributions.distributions import Distribution

    derived = {"view": [], "cat": [], "transformed": []}
    for oid, o in dic.items():
        if isinstance(o, ViewParameter):
            derived["view"].append(oid)
        elif isinstance(o, CatParameter):
            derived["cat"].append(oid)
        elif isinstance(o, TransformedParameter):
            derived["transformed"].append(oid)
    dists = [oid for oid, o in dic.items() if isinstance(o, Distribution) and recipe.get("draw", True)]
    upd = [p for p in domains if p in base]
    base_shapes = {p: tuple(base[p].tensor.shape) for p in upd}
    from torchtree.core.parameter import Parameter as _P

    anon = [(oid, key) for oid, o in dic.items() if isinstance(o, Distribution) for key, p in o.dict_parameters.items()
            if type(p) is _P and p.id is None and p.tensor.dtype.is_floating_point]
    n_ops = k.randint(8, 50)
    policy = k.choice(["all", "leaf", "root", "random", "random", "child-sibling-parent"])
    scale = k.choice([0.01, 0.1, 0.1, 0.5])
    w = st["workload"]
    ops = []
    # state tracking for value generation: run the ops on a scratch history
    hist = History(spec, domains, EventLog())
    hist.oracle = False  # the scratch copy only tracks state (reads of stochastic observables rewrite parameters)

    def current(pid):
        return hist.dic[pid].tensor

    def pick_targets():
        if policy == "all" or not obs:
            return list(obs)
        if policy == "leaf":
            return obs[: max(1, len(obs) // 3)]
        if policy == "root":
            return obs[-2:]
        if policy == "child-sibling-parent":
            i = w.randint(0, len(obs) - 1)
            return [obs[i], obs[-1]]
        return w.sample(obs, w.randint(1, max(1, min(6, len(obs)))))

    for i in range(n_ops):
        u = w.random()
        op = None
        if u < 0.42 or not upd:
            op = {"op": "eval", "targets": [list(t) for t in pick_targets()]}
        elif u < 0.60:
            pid = w.choice(upd)
            t = current(pid)
            op = {"op": "assign", "id": pid, "values": perturb(w, t, domains[pid], scale), "dtype": str(t.dtype).split(".")[-1]}
        elif u < 0.68:
            pid = w.choice(upd)
            t = current(pid)
            if domains[pid] == "real":
                op = {"op": "inplace", "id": pid, "delta": [scale * w.normal() for _ in range(t.numel())] if t.dim() == 1 else scale * w.normal()}
                if t.dim() != 1:
                    op["delta"] = float(op["delta"])
            else:
                op = {"op": "assign", "id": pid, "values": perturb(w, t, domains[pid], scale), "dtype": str(t.dtype).split(".")[-1]}
        elif u < 0.76 and (derived["view"] or derived["cat"] or derived["transformed"]):
            kind = w.choice([kk for kk in ("view", "cat", "transformed") if derived[kk]])
            oid = w.choice(derived[kind])
            under = [p for p in base_ids_of(hist.dic[oid]) if p in domains]
            if not under:
                continue
            # torch refuses in-place writes into a leaf that requires grad: not a valid update
            if writes_in_place(hist.dic[oid]) and any(hist.dic[p].tensor.requires_grad for p in base_ids_of(hist.dic[oid])):
                continue
            # a valid value of the derived parameter: its value in a fresh model whose
            # underlying base parameters have been perturbed inside their domains
            vals = hist.base_values()
            import torch as _t

            for p in under:
                vals[p] = _t.tensor(perturb(w, vals[p], domains[p], scale), dtype=vals[p].dtype)
            try:
                fr = freshlib.build(freshlib.substitute(spec, vals))
            except Exception:  # noqa: BLE001 - mixed batched/unbatched state: no valid value to assign
                continue
            t = fr[oid].tensor.detach()
            op = {"op": "assign_" + kind, "id": oid, "values": t.tolist(), "dtype": str(t.dtype).split(".")[-1]}
        elif u < 0.82 and dists:
            did = w.choice(dists)
            xo = hist.dic[did].x
            if writes_in_place(xo) and any(hist.dic[p].tensor.requires_grad for p in base_ids_of(xo) if p in hist.dic):
                continue
            op = {"op": "draw", "id": did, "rsample": w.bernoulli(0.5), "shape": [] if w.bernoulli(0.75) else [w.randint(1, 3)], "seed": w.next64() & 0x7FFFFFFF}
        elif u < 0.92:
            cands = [p for p in upd if current(p).dim() == 1 and domains[p] in ("real", "positive", "simplex") and not current(p).requires_grad]
            if not cands:
                continue
            pid = w.choice(cands)
            oper = {"real": "sliding", "positive": "scaler", "simplex": "dirichlet"}[domains[pid]]
            op = {"op": "propose", "id": pid, "operator": oper, "seed": w.next64() & 0x7FFFFFFF, "then": w.choice(["accept", "reject", "reject"])}
        elif u < 0.945 and recipe.get("batch", True):
            # batch / unbatch: a leading sample dimension on every updatable parameter
            vals, dts = {}, {}
            batched_now = any(current(p).dim() > len(base_shapes[p]) for p in upd)
            S = 0 if batched_now and w.bernoulli(0.6) else w.randint(1, 3)
            okshape = True
            # all of them at once, or only some (e.g. population sizes batched against one tree)
            some = list(upd) if w.bernoulli(0.55) else sorted(w.sample(list(upd), 1 if w.bernoulli(0.5) else w.randint(1, len(upd))))
            # one sample shape per state: a parameter that joins others which are already batched takes their size
            sizes = {int(current(p).shape[0]) for p in upd if p not in some and current(p).dim() > len(base_shapes[p])}
            if S > 0 and sizes:
                if len(sizes) > 1:
                    continue
                S = sizes.pop()
            for p in some:
                t = current(p).detach()
                row = t[(0,) * (t.dim() - len(base_shapes[p]))] if t.dim() > len(base_shapes[p]) else t
                if tuple(row.shape) != base_shapes[p]:
                    okshape = False
                    break
                if S == 0:
                    new = row
                else:
                    import torch as _t

                    new = _t.stack([_t.tensor(perturb(w, row, domains[p], scale), dtype=row.dtype) for _ in range(S)])
                vals[p] = new.tolist()
                dts[p] = str(t.dtype).split(".")[-1]
            if not okshape:
                continue
            op = {"op": "assign_many", "values": vals, "dtypes": dts, "S": S}
        elif u < 0.955 and anon:
            oid, key = w.choice(anon)
            t = hist.dic[oid].dict_parameters[key].tensor.detach()
            import torch as _t

            f = _t.tensor([math.exp(0.5 * scale * w.normal()) for _ in range(max(t.numel(), 1))], dtype=t.dtype).reshape(t.shape)
            op = {"op": "assign_anon", "owner": oid, "key": key, "values": (t * f).tolist(), "dtype": str(t.dtype).split(".")[-1]}
        elif u < 0.96:
            pid = w.choice(upd)
            if not current(pid).is_leaf:
                continue  # torch only allows changing the flag of leaf tensors
            op = {"op": "requires_grad", "id": pid, "value": w.bernoulli(0.5)}
        else:
            from torchtree.core.model import CallableModel as _CM

            calls = [o for o in obs if o[1] == "call" and isinstance(dic[o[0]], _CM)]
            if len(calls) < 2:
                continue
            j = w.randint(1, len(calls) - 1)
            i0 = w.randint(0, j - 1)
            op = {"op": "abort_eval", "outer": calls[j][0], "outer_acc": "call", "inner": calls[i0][0], "inner_acc": "call", "after": w.bernoulli(0.5)}
        if op is None:
            continue
        ops.append(op)
        op2 = copy.deepcopy(op)
        if op2["op"] == "eval":
            op2["targets"] = [tuple(t) for t in op2["targets"]]
        ok = hist.apply(op2)
        if not ok:
            break
    ops.append({"op": "eval", "targets": [list(t) for t in obs]})
    w2 = st["workload2"]
    if recipe.get("batch", True) and len(upd) >= 2 and w2.bernoulli(0.35):
        # one parameter at a time acquires a sample dimension, changes its size, loses it again, while
        # every other input keeps its shape (e.g. population sizes drawn in a batch against one tree)
        import torch as _t

        for p in w2.sample(sorted(upd), min(3, len(upd))):
            if any(current(q).dim() > len(base_shapes[q]) for q in upd):
                break  # some parameter is still batched (with a size of its own): one sample shape per state
            t = current(p).detach()
            row = t[(0,) * (t.dim() - len(base_shapes[p]))] if t.dim() > len(base_shapes[p]) else t
            if tuple(row.shape) != base_shapes[p] or t.dim() > len(base_shapes[p]):
                continue
            for S in (w2.randint(1, 2), 3, 0):
                new = row if S == 0 else _t.stack([_t.tensor(perturb(w2, row, domains[p], scale), dtype=row.dtype) for _ in range(S)])
                tail = [{"op": "assign_many", "values": {p: new.tolist()}, "dtypes": {p: str(t.dtype).split(".")[-1]}, "S": S},
                        {"op": "eval", "targets": [list(x) for x in obs]}]
                stop = False
                for op in tail:
                    ops.append(op)
                    op2 = copy.deepcopy(op)
                    if op2["op"] == "eval":
                        op2["targets"] = [tuple(x) for x in op2["targets"]]
                    if not hist.apply(op2):
                        stop = True
                        break
                if stop:
                    break
    return {"recipe": recipe, "ops": ops, "policy": policy, "seed": run_seed(seed, PROP, index)}


def execute(scenario, log=None):
    if log is None:
        log = EventLog()
    spec, domains = build_scene(scenario["recipe"])
    try:
        hist = History(spec, domains, log)
    except Exception as e:  # noqa: BLE001
        return {"violations": [], "stats": {}, "flag_states": [], "classes": {}, "digest": log.digest(),
                "excluded": "scene does not build: %s: %s" % (type(e).__name__, str(e)[:200])}
    for op in scenario["ops"]:
        op = copy.deepcopy(op)
        if op["op"] == "eval":
            op["targets"] = [tuple(t) for t in op["targets"]]
        ok = hist.apply(op)
        if not ok:
            break
    return {"violations": hist.violations, "stats": hist.stats, "flag_states": sorted("%s|%s" % fs for fs in hist.flag_states),
            "classes": hist.classes_touched, "digest": log.digest(), "excluded": None}


def _core(sig):
    return {k: v for k, v in sig.items() if k != "via"}


def minimise(scenario, sig, budget=60):
    tests = [0]

    def fails(ops):
        if tests[0] >= budget:
            return False
        tests[0] += 1
        try:
            r = execute(dict(scenario, ops=ops))
        except Exception:  # noqa: BLE001
            return False
        return any(_core(v["signature"]) == _core(sig) for v in r["violations"])

    ops = list(scenario["ops"])
    r = execute(scenario)
    # cut after the failing op
    n = r["stats"].get("ops", len(ops))
    ops = ops[:n]
    if not fails(ops):
        return scenario
    ops = ddmin(ops, fails, max_tests=budget)
    # shrink eval target lists
    for i, op in enumerate(list(ops)):
        if op["op"] == "eval" and len(op["targets"]) > 1:
            for t in list(op["targets"]):
                cand = ops[:i] + [dict(op, targets=[t])] + ops[i + 1 :]
                if fails(cand):
                    ops = cand
                    break
    return dict(scenario, ops=ops)


# ----------------------------------------------------------------------------
# driver interface
# ----------------------------------------------------------------------------
TIMEOUT = {"quick": 1500, "thorough": 8 * 3600}
SELFTEST_N = {"quick": 6, "thorough": 32}


def plan(tier, seed, scale=1.0):
    n = int({"quick": 1600, "thorough": 100000}[tier] * scale)
    per = 20 if tier == "quick" else 100
    return [{"kind": "runs", "seed": seed, "lo": lo, "hi": min(n, lo + per), "tier": tier} for lo in range(0, n, per)]


def selftest_indices(tasks, n):
    step = max(1, len(tasks) // n)
    return list(range(0, len(tasks), step))[:n]


def run_task(task):
    from sim import envinfo

    if task["kind"] == "replay":
        r = execute(task["scenario"])
        return {"violations": [dict(v, scenario=task["scenario"], engine=ENGINE) for v in r["violations"]], "digest": r["digest"]}
    log = EventLog()
    agg = {"violations": [], "stats": {}, "flag_states": {}, "classes": {}, "runs": 0, "samples": [], "excluded": [], "scenes": {}}
    seen = set()
    seen_final = set()
    for i in range(task["lo"], task["hi"]):
        try:
            sc = generate(task["seed"], i, task["tier"])
        except Exception as e:  # noqa: BLE001 - scene cannot even be generated on this tree
            agg["excluded"].append("generate %d: %s: %s" % (i, type(e).__name__, str(e)[:200]))
            continue
        r = execute(sc)
        log.add(i, r["digest"])
        if r["excluded"]:
            agg["excluded"].append(json.dumps(sc["recipe"])[:80] + " :: " + r["excluded"])
            continue
        agg["runs"] += 1
        name = sc["recipe"]["name"]
        agg["scenes"][name] = agg["scenes"].get(name, 0) + 1
        for k, v in r["stats"].items():
            agg["stats"][k] = agg["stats"].get(k, 0) + v
        for fs in r["flag_states"]:
            agg["flag_states"][name + "|" + fs] = 1
        for k, v in r["classes"].items():
            agg["classes"][k] = agg["classes"].get(k, 0) + v
        if not agg["samples"]:
            agg["samples"].append({"recipe": sc["recipe"], "policy": sc["policy"], "ops": [_brief(o) for o in sc["ops"][:12]]})
        for v in r["violations"]:
            key = json.dumps(v["signature"], sort_keys=True)
            if key in seen:
                continue
            seen.add(key)
            small = minimise(sc, v["signature"])
            rr = execute(small)
            vv = [x for x in rr["violations"] if _core(x["signature"]) == _core(v["signature"])]
            fin = vv[0] if vv else v
            fkey = json.dumps(fin["signature"], sort_keys=True)
            if fkey in seen_final:
                continue
            seen_final.add(fkey)
            agg["violations"].append({"signature": fin["signature"], "message": fin["message"], "scenario": small if vv else sc, "engine": ENGINE,
                                      "found_by": "seed=%d history=%d" % (task["seed"], i), "environment": envinfo.environment()})
    agg["digest"] = log.digest()
    return agg


def _brief(op):
    o = dict(op)
    for k in ("values", "delta", "dtypes"):
        if k in o:
            o[k] = "..."
    if "targets" in o:
        o["targets"] = o["targets"][:4]
    return o


def summarize(tasks, results, tier, seed):
    stats, flags, classes, scenes_n = {}, {}, {}, {}
    runs = 0
    samples, excluded = [], {}
    for r in results:
        runs += r["runs"]
        for e in r["excluded"]:
            excluded[e] = excluded.get(e, 0) + 1
        for k, v in r["stats"].items():
            stats[k] = stats.get(k, 0) + v
        for k in r["flag_states"]:
            flags[k] = 1
        for k, v in r["classes"].items():
            classes[k] = classes.get(k, 0) + v
        for k, v in r["scenes"].items():
            scenes_n[k] = scenes_n.get(k, 0) + v
        if len(samples) < 3 and r["samples"]:
            samples.append(r["samples"][0])
    nontrivial = [f for f in flags if "1" in f.split("|")[1]]
    return {
        "evaluations": max(runs, 1),
        "distinct_nontrivial": len(nontrivial),
        "rule": "one evaluation = one history of 8..50 operations on one scene. Distinct = (scene, vector of every dirty flag in the graph {lp_needs_update, need_update, _need_update, needs_update, heights_need_update, branch_lengths_need_update, rescale}, kind of the next operation); non-trivial = at least one flag is dirty when the operation starts.",
        "samples": samples,
        "histories_per_scene": scenes_n,
        "simulated_time": {"operations": stats.get("ops", 0), "updates": stats.get("updates", 0), "checked_reads": stats.get("reads", 0)},
        "checks_performed": stats,
        "faults_fired": {"aborted_evaluations": stats.get("aborted_evals", 0)},
        "classes_read_after_update": classes,
        "excluded_workload": excluded,
        "real_code": ["process_objects / from_json of every class in the scenes", "Parameter/ViewParameter/CatParameter/TransformedParameter setters and listeners", "every Model.handle_* override reached", "ScalerOperator/SlidingWindowOperator/DirichletOperator step/accept/reject", "Distribution.sample/rsample"],
        "stubs": ["none (the only seam is the injected exception inside a nested evaluation)"],
    }
