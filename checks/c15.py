"""C15 - every MCMC transition is a Metropolis-Hastings step on the stated target.

Engine mcmc_sim: the real MCMC.run() with real operators, adaptors, models and
loggers (over SimFS).  The simulator owns the operator schedule (the
Categorical draw), the accept/reject coin (torch.rand), the per-transition
re-seed of the torch generator, and numerical faults of the target (a hard
wall returning -inf / +inf / NaN).  A monitor inside the seams checks every
transition against a reference Metropolis-Hastings model whose densities come
from a model freshly rebuilt from JSON.
"""
from __future__ import annotations

import copy
import csv
import io
import json
import math

from sim import fresh as freshlib
from sim import refprop, scenes, simfs
from sim.core import EventLog, Rng, Streams, ddmin, hash64, run_seed, tensor_digest
from sim.incarnation import Patch, SimSignalHandler
from sim.scenelib import build_spec
from sim.simfs import SimFS

PROP = "C15"
ENGINE = "c15"
LEVEL = "exploration"
ASSUMPTIONS = [
    "the reference density is the model freshly rebuilt from the same JSON specification with the current parameter values (real torchtree model code, fresh object graph); C15 is about the sampler, the model code itself is the subject of other properties",
    "conventions of the code are taken as conforming: an operator returning +-inf signals 'proposal failed', a non-finite proposed density means 'outside the support'; both must lead to reject-and-restore",
    "GMRF block update reference uses the repository's sufficient statistics and precision matrix of a freshly built model as inputs (those are property C20) and re-implements Newton-Raphson mode finding and the Gaussian approximation in numpy",
    "DualAveragingStepSize is checked by counterfactual monotonicity and against a reference recurrence, because Nesterov dual averaging is not per-step monotone",
    "coins closer to the true acceptance probability than 1e-12 relative are skipped and counted, never flagged",
]

TOL = 1e-9


class _Stop(BaseException):
    pass


def worker_init():
    from sim import envinfo

    envinfo.setup()


def close(a, b, tol=TOL):
    if a is None or b is None:
        return a is b
    if math.isnan(a) or math.isnan(b):
        return math.isnan(a) and math.isnan(b)
    if math.isinf(a) or math.isinf(b):
        return a == b
    return abs(a - b) <= tol * max(1.0, abs(a), abs(b))


# ----------------------------------------------------------------------------
# seams
# ----------------------------------------------------------------------------
class _Categorical:
    def __init__(self, sim, weights):
        self.sim = sim
        self.weights = weights

    def sample(self, *a, **k):
        return self.sim.on_choose(self.weights)


class _DistProxy:
    def __init__(self, sim, real):
        self._sim = sim
        self._real = real

    def Categorical(self, weights=None, *a, **k):  # noqa: N802
        if weights is None:
            weights = k.get("probs")
        return _Categorical(self._sim, weights)

    def __getattr__(self, name):
        return getattr(self._real, name)


class TorchProxy:
    """Stands in for the name `torch` inside inference/mcmc/mcmc.py."""

    def __init__(self, sim):
        import torch

        object.__setattr__(self, "_sim", sim)
        object.__setattr__(self, "_torch", torch)
        object.__setattr__(self, "distributions", _DistProxy(sim, torch.distributions))

    def rand(self, *shape, **k):
        return self._sim.on_coin(shape)

    def __getattr__(self, name):
        return getattr(self._torch, name)


class OpTorchProxy:
    """Stands in for the name `torch` inside inference/mcmc/operator.py: passes every call through
    and records the uniform / integer draws of the current operator step; in `force` mode (the
    kernel probe, run on a stand-in operator) it replays a given list of draws instead."""

    def __init__(self, sim):
        import torch

        object.__setattr__(self, "_sim", sim)
        object.__setattr__(self, "_torch", torch)
        object.__setattr__(self, "forced", None)

    def rand(self, *a, **k):
        if self.forced is not None:
            kind, v = self.forced.pop(0)
            if kind != "rand":
                raise _ProbeMismatch()
            return self._torch.tensor([v], dtype=self._torch.float64)
        r = self._torch.rand(*a, **k)
        if r.numel() == 1:
            self._sim.cur_draws.append(("rand", float(r.reshape(-1)[0])))
        else:
            self._sim.cur_draws.append(("rand*", None))
        return r

    def randint(self, *a, **k):
        if self.forced is not None:
            kind, v = self.forced.pop(0)
            if kind != "randint":
                raise _ProbeMismatch()
            return self._torch.tensor([v])
        r = self._torch.randint(*a, **k)
        self._sim.cur_draws.append(("randint", int(r.reshape(-1)[0])) if r.numel() == 1 else ("randint*", None))
        return r

    def __getattr__(self, name):
        return getattr(self._torch, name)

    def __setattr__(self, name, value):
        object.__setattr__(self, name, value)


class _ProbeMismatch(Exception):
    pass


class IntegratorProxy:
    """Forwards everything to the real integrator, records the returned momentum."""

    def __init__(self, real, sim):
        object.__setattr__(self, "_real", real)
        object.__setattr__(self, "_sim", sim)

    def __call__(self, *a, **k):
        r = self._real(*a, **k)
        self._sim.cur_p1 = r.detach().clone()
        return r

    def __getattr__(self, name):
        return getattr(self._real, name)

    def __setattr__(self, name, value):
        setattr(self._real, name, value)


# ----------------------------------------------------------------------------
# operator descriptors
# ----------------------------------------------------------------------------
def op_kind(op):
    n = type(op).__name__
    for k in ("ScalerOperator", "SlidingWindowOperator", "DirichletOperator", "HMCOperator", "GMRFPiecewiseCoalescentBlockUpdatingOperator"):
        for c in type(op).__mro__:
            if c.__name__ == k:
                return k
    return n


def tuning_value(op):
    return float(op.tuning_parameter)


def boldness(op):
    k = op_kind(op)
    v = tuning_value(op)
    if k == "ScalerOperator":
        return 1.0 / v - v
    if k == "DirichletOperator":
        return 1.0 / v
    return v  # sliding window width, GMRF scaler, HMC step size


# ----------------------------------------------------------------------------
# the monitor
# ----------------------------------------------------------------------------
class Rec:
    __slots__ = ("t", "op_index", "op", "seed", "s", "s2", "s3", "hr", "lp_s", "lp_s2", "fresh_s2", "coin", "u", "alpha", "hr_true",
                 "decision", "hook", "tuning_before", "p0", "p1", "mass", "notes", "hr_error", "expected", "joint_calls", "logged")

    def __init__(self):
        for k in self.__slots__:
            setattr(self, k, None)
        self.notes = {}


class McmcSim:
    def __init__(self, spec, dic, mcmc, scenario, log, fs):
        self.spec = spec
        self.dic = dic
        self.mcmc = mcmc
        self.sc = scenario
        self.log = log
        self.fs = fs
        self.trace_in = scenario.get("trace")
        self.trace = []
        st = Streams(scenario["seed"])
        self.rs, self.rc, self.rk = st["schedule"], st["coin"], st["knobs"]
        self.records = []
        self.cur = None
        self.violations = []
        self.stats = {"transitions": 0, "accepted": 0, "rejected": 0, "hr_checked": 0, "hr_skipped_failed_proposal": 0, "coin_too_close": 0,
                      "decisions_checked": 0, "restores_checked": 0, "carried_checked": 0, "tune_checked": 0, "rows_checked": 0,
                      "nonfinite_proposal": 0, "observed_joint": 0, "boundary_coins": 0, "hook_seen": 0, "da_counterfactual": 0}
        self.states = {}
        self.probes = {}
        self.params = freshlib.base_parameters(dic)
        self.target_id = mcmc.joint.id
        self.fresh_cur = None
        self.lp_cur = None
        self.cur_p0 = None
        self.cur_p1 = None
        self.cur_draws = []
        self.op_torch = None
        self.law_checks = {}
        self.policy = scenario["policy"]
        self.logged_expect = {}
        self.da_ref = {}
        self.accept_counts = {}
        self.logger_specs = []

    # -- reference helpers
    def snapshot(self):
        return {k: p.tensor.detach().clone() for k, p in self.params.items()}

    def snapshot_meta(self):
        return {k: (str(p.tensor.dtype), tuple(p.tensor.shape), bool(p.tensor.requires_grad)) for k, p in self.params.items()}

    def fresh_at(self, values):
        """(registry, target value or exception class name)"""
        import torch

        try:
            d = freshlib.fresh(self.spec, values)
            with torch.no_grad():
                lp = d[self.target_id]()
            return d, float(lp), None
        except Exception as e:  # noqa: BLE001
            return None, None, type(e).__name__

    def violate(self, oracle, op, msg, extra=None):
        sig = {"engine": "mcmc_sim", "oracle": oracle, "operator": op_kind(op) if op is not None else "-"}
        if extra:
            sig.update(extra)
        t = self.cur.t if self.cur is not None else -1
        self.violations.append({"signature": sig, "message": "transition %d: %s" % (t + 1, msg), "t": t})

    def operators_once(self):
        seen, out = set(), []
        for o in self.mcmc._operators:
            if id(o) not in seen:
                seen.add(id(o))
                out.append(o)
        return out

    def probe(self, name):
        self.probes[name] = self.probes.get(name, 0) + 1

    # -- start of run
    def on_run_start(self):
        self.fresh_cur, self.lp_cur, err = self.fresh_at(self.snapshot())
        if err:
            raise RuntimeError("target undefined at the initial state: " + err)
        for lg in getattr(self.mcmc, "loggers", ()):
            if type(lg).__name__ == "Logger" and getattr(lg, "file_name", None):
                self.logger_specs.append(lg)
        self.expect_logged(0)

    def expect_logged(self, sample):
        """What a self-consistent log row for `sample` must contain: values of the
        freshly built model at the current state."""
        import torch

        if self.fresh_cur is None:
            return
        for li, lg in enumerate(self.logger_specs):
            if sample % lg.every != 0:
                continue
            row = []
            for obj in lg.objs:
                ref = self.fresh_cur.get(obj.id)
                if ref is None:
                    row.append(None)
                    continue
                try:
                    if hasattr(ref, "tensor") and not callable(getattr(ref, "_call", None)):
                        row.append([float(v) for v in ref.tensor.detach().reshape(-1).tolist()])
                    else:
                        with torch.no_grad():
                            v = ref()
                        row.append([float(v.sum())] if v.dim() == 0 or v.shape[-1] <= 1 else [float(v.sum(-1))])
                except Exception as e:  # noqa: BLE001
                    row.append("raise:" + type(e).__name__)
            self.logged_expect[(li, sample)] = row

    # -- seam: operator choice (start of a transition)
    def on_choose(self, weights):
        import torch

        t = len(self.records)
        self.cur = rec = Rec()
        rec.t = t
        w = [float(x) for x in weights.tolist()]
        if self.trace_in is not None:
            ent = self.trace_in[t] if t < len(self.trace_in) else None
            if ent is None:
                raise _Stop()
            idx, seed = ent["op"], ent["seed"]
            idx = min(idx, len(w) - 1)
            self._coin_plan = ent["coin"]
        else:
            pol = self.policy["ops"]
            if pol["kind"] == "class":
                # mostly one operator class (e.g. the GMRF block update), the others now and then
                hits = [i for i, o in enumerate(self.mcmc._operators) if pol["name"] in type(o).__name__]
                idx = self.rs.choice(hits) if hits and self.rs.bernoulli(0.8) else self.rs.weighted(list(range(len(w))), w)
            elif pol["kind"] == "single":
                idx = pol["index"] % len(w)
            elif pol["kind"] == "roundrobin":
                idx = t % len(w)
            elif pol["kind"] == "bursts":
                idx = (t // pol["len"]) % len(w)
            else:
                idx = self.rs.weighted(list(range(len(w))), w)
            seed = self.rs.next64() & 0x7FFFFFFFFFFFFFFF
            self._coin_plan = None
        rec.op_index = idx
        rec.seed = seed
        torch.manual_seed(seed)
        rec.s = self.snapshot()
        rec.lp_s = self.lp_cur
        self.cur_p0 = self.cur_p1 = None
        self.cur_draws = []
        self._tuning_all = [(o, tuning_value(o)) for o in self.operators_once()]
        self.log.add("choose", t, idx, seed)
        return torch.tensor(idx)

    # -- seam: operator.step
    def wrap_step(self, op, orig):
        def step(*a, **k):
            rec = self.cur
            rec.op = op
            rec.tuning_before = tuning_value(op)
            if op_kind(op) == "HMCOperator":
                rec.mass = op.mass_matrix.detach().clone()
                rec.notes["leap_steps"] = int(op._integrator.steps)
            hr = orig(*a, **k)
            rec.hr = float(hr)
            rec.s2 = self.snapshot()
            rec.p0, rec.p1 = self.cur_p0, self.cur_p1
            rec.notes["draws"] = list(self.cur_draws)
            self.log.add("step", rec.t, op.id, rec.hr, sorted((k2, tensor_digest(v)) for k2, v in rec.s2.items()))
            return hr

        return step

    def wrap_momentum(self, orig):
        def sample_momentum(*a, **k):
            import torch

            n = self.law_checks.get(("momentum", id(orig)), 0)
            self.law_checks[("momentum", id(orig))] = n + 1
            probe = (n < 3 or n % 8 == 0) and len(a) == 1 and not k and isinstance(a[0], torch.Tensor)
            before = torch.get_rng_state() if probe else None
            p = orig(*a, **k)
            self.cur_p0 = p.detach().clone()
            if probe:
                after = torch.get_rng_state()
                try:
                    self._momentum_law(orig, a[0], p, before)
                finally:
                    torch.set_rng_state(after)  # the run's random stream is left exactly as the real draw left it
            return p

        return sample_momentum

    def _momentum_law(self, orig, mass, p, rng_state):
        """K(r) - K(r') with K = r' M^-1 r / 2 is a Hastings ratio only if the momentum is drawn from
        N(0, M).  Measured on the sampler itself, with the random stream rewound to where the real
        draw started: the draw for 4M must be exactly twice the draw for M (any sampler built on a
        square root of M scales like that; one built on M^-1 halves instead), and for a diagonal M
        the draw must be sqrt(m_i) times the draw for the identity."""
        import torch

        try:
            torch.set_rng_state(rng_state)
            p4 = orig(mass * 4.0)
            torch.set_rng_state(rng_state)
            z = orig(torch.ones_like(mass) if mass.dim() == 1 else torch.eye(mass.shape[0], dtype=mass.dtype))
        except Exception:  # noqa: BLE001
            self.probe("momentum_law_abstained")
            return
        if p4.shape != p.shape or z.shape != p.shape or not bool(torch.isfinite(p).all()):
            self.probe("momentum_law_abstained")
            return
        self.probe("momentum_law_checked")
        tol = 1e-9 if p.dtype == torch.float64 else 1e-4
        scale = 1.0 + p.abs()
        bad = None
        if float(((p4 - 2.0 * p).abs() / scale).max()) > tol:
            bad = "the draw for the mass matrix 4M is not twice the draw for M (first entries %s vs %s)" % (p4.reshape(-1)[:3].tolist(), p.reshape(-1)[:3].tolist())
        elif mass.dim() == 1 and float(((p - mass.sqrt() * z).abs() / scale).max()) > tol:
            bad = "for the diagonal mass matrix the draw is not sqrt(m_i) times the draw for the identity (first entries %s, sqrt(m) z = %s)" % (p.reshape(-1)[:3].tolist(), (mass.sqrt() * z).reshape(-1)[:3].tolist())
        if bad:
            self.violate("proposal_support", self.cur.op if self.cur is not None else None,
                         "HMC momentum is not drawn from N(0, M), which the kinetic-energy Hastings ratio presupposes: " + bad, {"what": "momentum_law"})

    # -- reference Hastings ratio
    def hr_reference(self, rec):
        op = rec.op
        k = op_kind(op)
        from checks.c11 import base_ids_of

        ids = [i for par in op.parameters for i in base_ids_of(par)]
        try:
            if k == "ScalerOperator":
                self._kernel_law(rec, op, "scale")
                if any(type(par).__name__ == "TransformedParameter" for par in op.parameters):
                    return self._scaler_derived(rec, op)
                return refprop.scaler(ids, rec.tuning_before, rec.s, rec.s2)
            if k == "SlidingWindowOperator":
                self._kernel_law(rec, op, "shift")
                return refprop.sliding(ids, rec.tuning_before, rec.s, rec.s2)
            if k == "DirichletOperator":
                self._dirichlet_law(rec, op)
                return refprop.dirichlet(ids, rec.tuning_before, rec.s, rec.s2)
            if k == "HMCOperator":
                if rec.p0 is None or rec.p1 is None:
                    return None, {"no_momentum": True}
                self._leapfrog_reference(rec, op)
                return refprop.hmc(rec.p0.numpy(), rec.p1.numpy(), rec.mass.numpy())
            if k == "GMRFPiecewiseCoalescentBlockUpdatingOperator":
                return self._gmrf_reference(rec, op)
        except refprop.ProposalError as e:
            rec.hr_error = str(e)
            return None, {"proposal_error": str(e)}
        return None, {"unknown_operator": k}

    def _kernel_law(self, rec, op, what):
        """The closed-form Hastings ratios of the scaler (-log f, row form (d-2) log f) and of the
        sliding window (0) presuppose the *law* of the random factor / shift: uniform on [a, 1/a],
        symmetric about 0.  The law is measured here instead of assumed: the operator's own
        `_step` is run on a stand-in (a shallow copy of the operator over detached copies of its
        parameter tensors, no model attached) with the uniform draw of the real step replaced by
        chosen values, which gives the map u -> move; its density is 1/|d move / du|, and the log
        ratio of the density at the reverse move to the density at the forward move must be what
        the closed form presupposes (0).  Abstains unless the step consumed exactly one uniform."""
        import copy

        import torch

        n = self.law_checks.get(id(op), 0)
        self.law_checks[id(op)] = n + 1
        if not (n < 3 or n % 8 == 0) or self.op_torch is None:
            return
        draws = rec.notes.get("draws") or []
        if [d[0] for d in draws].count("rand") != 1 or any(d[0].endswith("*") for d in draws):
            self.probe("kernel_law_abstained")
            return
        from torchtree.core.parameter import Parameter

        def run(u):
            stand = copy.copy(op)
            base = []
            for par in op.parameters:
                t = rec_tensor(par)
                base.append(t)
            stand.parameters = [Parameter(None, t.clone()) for t in base]
            saved = getattr(op, "_scaler", None), getattr(op, "_width", None)
            if what == "scale":
                stand._scaler = rec.tuning_before
            else:
                stand._width = rec.tuning_before
            self.op_torch.forced = [(k, (u if k == "rand" else v)) for k, v in draws]
            try:
                stand._step()
            finally:
                self.op_torch.forced = None
            for t0, p1 in zip(base, stand.parameters):
                a, b = t0.reshape(-1).to(torch.float64), p1.tensor.detach().reshape(-1).to(torch.float64)
                idx = torch.nonzero(a != b).reshape(-1)
                if len(idx):
                    i = int(idx[0])
                    return float(b[i] / a[i]) if what == "scale" else float(b[i] - a[i])
            return 1.0 if what == "scale" else 0.0

        def rec_tensor(par):
            # values the parameter had before the real proposal
            from checks.c11 import base_ids_of

            ids = base_ids_of(par)
            if type(par).__name__ == "Parameter" and len(ids) == 1 and ids[0] in rec.s:
                return rec.s[ids[0]].detach().clone()
            return None

        if any(rec_tensor(par) is None for par in op.parameters):
            return  # derived / view parameters: the closed forms for them are checked on the derived values
        u0 = [v for k, v in draws if k == "rand"][0]
        try:
            m0 = run(u0)
            lo, hi = run(0.0), run(1.0 - 1e-12)
            target = (1.0 / m0) if what == "scale" else -m0
            if not (min(lo, hi) <= target <= max(lo, hi)):
                raise refprop.ProposalError("%s kernel: the reverse move (%r) is outside the range of the kernel [%r, %r] at this tuning value: the proposal is not reversible" % (what, target, lo, hi))
            a, b = (0.0, 1.0 - 1e-12)
            inc = hi > lo
            for _ in range(60):
                mid = 0.5 * (a + b)
                v = run(mid)
                if (v < target) == inc:
                    a = mid
                else:
                    b = mid
            u1 = 0.5 * (a + b)
            h = 1e-5

            def slope(u):
                x0, x1 = max(0.0, u - h), min(1.0 - 1e-12, u + h)
                return (run(x1) - run(x0)) / (x1 - x0)

            s0, s1 = abs(slope(u0)), abs(slope(u1))
        except _ProbeMismatch:
            self.probe("kernel_law_abstained")
            return
        if s0 <= 0 or s1 <= 0 or not math.isfinite(s0) or not math.isfinite(s1):
            self.probe("kernel_law_abstained")
            return
        self.probe("kernel_law_checked:" + what)
        log_ratio = math.log(s0) - math.log(s1)  # log p(reverse move) - log p(forward move), p = 1/|slope|
        if abs(log_ratio) > 1e-3:
            raise refprop.ProposalError("%s kernel: the density of the random %s is not the one its Hastings ratio presupposes: log density(reverse %s %.6g) - log density(forward %s %.6g) = %.4g, expected 0 "
                                        "(measured on the operator's own sampling map u -> move at tuning value %r)" % (what, "factor" if what == "scale" else "shift", what, target, what, m0, log_ratio, rec.tuning_before))

    def _dirichlet_law(self, rec, op):
        """The Hastings ratio of the Dirichlet operator is built from the densities of Dirichlet(c x)
        and Dirichlet(c x'): it presupposes that x' is *drawn* from Dirichlet(c x).  Measured once per
        operator and run on a stand-in (no model attached, own random stream, the run's stream is
        put back afterwards): 3 000 proposals from the current point must have mean x_i and variance
        x_i (1 - x_i) / (c + 1), within 6 standard errors / 25 %."""
        import copy

        import torch

        n = self.law_checks.get(("dirichlet", id(op)), 0)
        self.law_checks[("dirichlet", id(op))] = n + 1
        if n != 0 or len(op.parameters) != 1 or type(op.parameters[0]).__name__ != "Parameter":
            return
        from checks.c11 import base_ids_of
        from torchtree.core.parameter import Parameter

        ids = base_ids_of(op.parameters[0])
        if len(ids) != 1 or ids[0] not in rec.s:
            return
        x = rec.s[ids[0]].detach().clone().to(torch.float64)
        if x.dim() != 1 or float(x.min()) < 1e-3:
            return  # near the boundary the moments are dominated by a few draws
        c = float(rec.tuning_before)
        state = torch.get_rng_state()
        try:
            torch.manual_seed(hash64(self.sc["seed"], "dirichlet-law", rec.t) & 0x7FFFFFFF)
            stand = copy.copy(op)
            stand._scaler = c
            N = 3000
            draws = torch.empty((N, x.numel()), dtype=torch.float64)
            for i in range(N):
                stand.parameters = [Parameter(None, x.clone())]
                stand._step()
                draws[i] = stand.parameters[0].tensor.detach().to(torch.float64)
        except Exception:  # noqa: BLE001
            self.probe("dirichlet_law_abstained")
            return
        finally:
            torch.set_rng_state(state)
        self.probe("dirichlet_law_checked")
        mean, var = draws.mean(0), draws.var(0)
        var_true = x * (1 - x) / (c + 1.0)
        z = ((mean - x).abs() / (var_true / N).sqrt()).max()
        rel = ((var - var_true).abs() / var_true).max()
        if c * float(x.min()) < 1.0:
            rel = torch.tensor(0.0)  # J-shaped marginals: the sample variance of 3000 draws is too noisy to judge, the mean is not
        if float(z) > 6.0 or float(rel) > 0.25:
            raise refprop.ProposalError("Dirichlet kernel: 3000 proposals from x=%s with scaler %r have mean %s (%.1f standard errors off) and variance ratio up to %.2f of x(1-x)/(c+1): "
                                        "they are not drawn from Dirichlet(c x), which the densities in the Hastings ratio presuppose" % (
                                            [round(v, 4) for v in x.tolist()], c, [round(v, 4) for v in mean.tolist()], float(z), 1 + float(rel)))

    def _leapfrog_reference(self, rec, op):
        """K(r) - K(r') is the log ratio of reverse to forward proposal densities only if (x', -r')
        is the image of (x, r) under a reversible volume-preserving map: the leapfrog map of the
        target *at the current state*.  Recompute that map here, on a freshly built model holding
        the state before the proposal (own loop, gradients by autograd), and compare."""
        import torch

        d, _, err = self.fresh_at(rec.s)
        if d is None or err:
            return
        try:
            joint = d[op._hamiltonian.joint.id]
            params = [d[p.id] for p in op.parameters]
        except (KeyError, AttributeError):
            return
        eps, L = rec.tuning_before, rec.notes.get("leap_steps")
        mass = rec.mass.to(torch.float64)
        minv = 1.0 / mass if mass.dim() == 1 else torch.inverse(mass)
        x = torch.cat([p.tensor.detach().clone().reshape(-1) for p in params]).to(torch.float64)
        r = rec.p0.clone().to(torch.float64)
        dt = params[0].tensor.dtype

        def grad(xx):
            start = 0
            for p in params:
                n = p.tensor.numel()
                p.tensor = xx[start : start + n].to(dt).clone().requires_grad_(True)
                start += n
            lp = joint()
            lp.backward()
            return torch.cat([p.grad.reshape(-1) for p in params]).to(torch.float64)

        try:
            g = grad(x)
            r = r + 0.5 * eps * g
            for _ in range(L):
                x = x + eps * (minv * r if minv.dim() == 1 else minv @ r)
                g = grad(x)
                r = r + eps * g
            r = r - 0.5 * eps * g
        except Exception:  # noqa: BLE001 - the reference cannot follow (non-finite energy ...): no comparison
            return
        if not (bool(torch.isfinite(x).all()) and bool(torch.isfinite(r).all())):
            return
        from checks.c11 import base_ids_of

        got = torch.cat([rec.s2[i].detach().reshape(-1) for par in op.parameters for i in base_ids_of(par)]).to(torch.float64)
        self.probe("hmc_leapfrog_compared")
        tol = 1e-8 if dt == torch.float64 else 1e-3
        if got.shape != x.shape:
            return
        ex = float(((got - x).abs() / (1.0 + x.abs())).max())
        er = float(((rec.p1.to(torch.float64) - r).abs() / (1.0 + r.abs())).max())
        if ex > tol or er > tol:
            raise refprop.ProposalError("the HMC proposal is not the leapfrog map of the target at the current state: position off by %.3g, momentum off by %.3g "
                                        "(relative; step size %r, %d steps) - K(r) - K(r') is then not the log ratio of reverse to forward proposal densities" % (ex, er, eps, L))

    def _scaler_derived(self, rec, op):
        """Scaler attached to a derived (transformed) parameter y = T(x): the
        kernel acts on y, so the ratio is taken between the derived values, which
        are read from freshly built models."""
        d1, d2 = self.fresh_cur, rec.fresh_s2
        if d1 is None or d2 is None:
            return None, {"no_fresh": True}
        moved = []
        for par in op.parameters:
            y1 = d1[par.id].tensor.detach().reshape(-1)
            y2 = d2[par.id].tensor.detach().reshape(-1)
            for i in range(len(y1)):
                a, b = float(y1[i]), float(y2[i])
                # the untouched coordinates go through inv(transform(.)) and may move by rounding only
                if abs(a - b) > 1e-12 * max(abs(a), abs(b), 1e-300):
                    moved.append((a, b))
        if len(moved) == 0:
            return 0.0, {}
        if len(moved) > 1:
            raise refprop.ProposalError("scaler on derived parameter moved %d coordinates" % len(moved))
        return math.log(moved[0][0]) - math.log(moved[0][1]), {}

    def _gmrf_reference(self, rec, op):
        import numpy as np
        import torch

        d1, d2 = self.fresh_cur, rec.fresh_s2
        if d1 is None or d2 is None:
            return None, {"no_fresh": True}
        gm1, gm2 = d1[op.gmrf.id], d2[op.gmrf.id]
        co1 = d1[op.coalescent.id]
        with torch.no_grad():
            w, counts = co1.distribution().sufficient_statistics(co1.tree_model.node_heights)
            Q_old = gm1.precision_matrix().detach().numpy().astype(np.float64)
            Q_new = gm2.precision_matrix().detach().numpy().astype(np.float64)
        fid = op.gmrf.field.id
        g1 = d1[fid].tensor.detach().numpy().astype(np.float64)
        g2 = d2[fid].tensor.detach().numpy().astype(np.float64)
        tau1 = float(gm1.precision.tensor.reshape(-1)[0])
        tau2 = float(gm2.precision.tensor.reshape(-1)[0])
        if not refprop.precision_support(tau1, tau2, rec.tuning_before):
            raise refprop.ProposalError("precision factor %r outside [1/A, A], A=%r" % (tau2 / tau1, rec.tuning_before))
        return refprop.gmrf_block(g1, g2, Q_old, Q_new, counts.detach().numpy().astype(np.float64), w.detach().numpy().astype(np.float64),
                                  op._stop_value, op._max_iterations)

    # -- seam: the coin
    def ensure_proposal_reference(self, rec):
        if rec.fresh_s2 is None and rec.expected is None:
            rec.fresh_s2, rec.lp_s2, err = self.fresh_at(rec.s2)
            rec.expected = "raise:" + err if err else "ok"
            if rec.hr is not None and not math.isinf(rec.hr):
                rec.hr_true, notes = self.hr_reference(rec)
                if rec.hr_true is not None and math.isnan(rec.hr_true) and not math.isnan(rec.hr):
                    rec.hr_true = None  # reference undefined (e.g. overflowed momentum): no comparison
                rec.notes.update(notes)
                if "gmrf_reference_unstable" in notes:
                    self.probe("gmrf_reference_unstable")

    def on_coin(self, shape):
        import torch

        rec = self.cur
        self.ensure_proposal_reference(rec)
        alpha = None
        if rec.lp_s2 is not None and math.isfinite(rec.lp_s2) and rec.hr_true is not None and rec.lp_s is not None:
            la = rec.lp_s2 - rec.lp_s + rec.hr_true
            alpha = 1.0 if la >= 0 else math.exp(la)
        rec.alpha = alpha
        plan = self._coin_plan
        if plan is None:
            pol = self.rc.weighted(["uniform", "boundary", "zero", "one"], self.policy["coin"])
            if pol == "boundary" and (alpha is None or alpha <= 0.0):
                pol = "uniform"
            if pol == "uniform":
                plan = {"policy": "uniform", "u": self.rc.random()}
            elif pol == "boundary":
                plan = {"policy": "boundary", "delta": self.rc.loguniform(1e-9, 1e-3), "sign": self.rc.choice([-1, 1])}
            else:
                plan = {"policy": pol}
        if plan["policy"] == "uniform":
            u = plan["u"]
        elif plan["policy"] == "boundary" and alpha is not None and alpha > 0:
            u = alpha * (1.0 + plan["sign"] * plan["delta"])
            u = min(max(u, 0.0), 1.0 - 2.0 ** -53)
            self.stats["boundary_coins"] += 1
        elif plan["policy"] == "zero":
            u = 0.0
        elif plan["policy"] == "one":
            u = 1.0 - 2.0 ** -53
        else:
            u = plan.get("u", 0.5)
        rec.coin = plan
        rec.u = u
        self.log.add("coin", rec.t, plan["policy"], u)
        n = 1
        for x in shape:
            n *= int(x) if not isinstance(x, (tuple, list)) else int(x[0])
        return torch.full((max(n, 1),), u, dtype=torch.get_default_dtype())

    # -- seam: accept / reject
    def wrap_decision(self, op, orig, what):
        def fn(*a, **k):
            r = orig(*a, **k)
            rec = self.cur
            rec.decision = what
            rec.s3 = self.snapshot()
            return r

        return fn

    # -- hook
    def on_trace(self, loc):
        rec = self.cur
        if rec is None:
            return
        self.stats["hook_seen"] += 1

        def num(x):
            try:
                return float(x)
            except Exception:  # noqa: BLE001
                return None

        rec.hook = {"log_joint": num(loc.get("log_joint")), "log_joint_proposed": num(loc.get("log_joint_proposed")) if "log_joint_proposed" in loc else None,
                    "accepted": loc.get("accepted"), "hastings_ratio": num(loc.get("hastings_ratio"))}

    # -- seam: tune (end of transition)
    def wrap_tune(self, op, orig):
        def tune(acceptance_prob, *a, **k):
            rec = self.cur
            if rec.op is not None and rec.op is not op:
                self.violate("tuning_foreign", op, "tune() was called on %s with the acceptance of a transition proposed by %s" % (op.id, rec.op.id))
            before = boldness(op)
            tv_before = tuning_value(op)
            try:
                self.pre_tune_checks(op, rec, float(acceptance_prob))
            except Exception:  # noqa: BLE001 - the counterfactual copy could not be driven: no verdict
                self.probe("counterfactual_failed")
            try:
                r = orig(acceptance_prob, *a, **k)
            except Exception:
                # the transition is part of the history even if tune() dies: keep it replayable
                self.trace.append({"op": rec.op_index, "seed": rec.seed, "coin": rec.coin or {"policy": "uniform", "u": 0.5}})
                raise
            after = boldness(op)
            self.finish(rec, op, float(acceptance_prob), before, after, tv_before, k.get("accepted", a[1] if len(a) > 1 else None))
            return r

        return tune

    def pre_tune_checks(self, op, rec, acc):
        """Counterfactual monotonicity of dual averaging, on deep copies."""
        if op_kind(op) != "HMCOperator":
            return
        for ad in getattr(op, "_adaptors", []):
            if type(ad).__name__ != "DualAveragingStepSize":
                continue
            vals = sorted({max(0.0, acc - 0.3), acc, min(1.0, acc + 0.3)})
            steps = []
            for v in vals:
                import torch

                c = copy.deepcopy(ad)
                c.learn(torch.tensor(v), rec.t + 1, True)
                steps.append(c.integrator.step_size)
            self.stats["da_counterfactual"] += 1
            for (v1, s1), (v2, s2) in zip(zip(vals, steps), list(zip(vals, steps))[1:]):
                if s2 < s1 * (1 - 1e-12):
                    self.violate("tuning_direction", op, "dual averaging: acceptance %.3f gives step size %.6g but higher acceptance %.3f gives smaller %.6g" % (v1, s1, v2, s2),
                                 {"adaptor": "DualAveragingStepSize"})

    def finish(self, rec, op, acc, bold_before, bold_after, tv_before, accepted_arg):
        import torch

        self.stats["transitions"] += 1
        self.ensure_proposal_reference(rec)
        kind = op_kind(op)
        # ---- 1. Hastings ratio
        failed = rec.hr is not None and math.isinf(rec.hr)
        nan_hr = rec.hr is not None and math.isnan(rec.hr)
        if nan_hr:
            # an undefined ratio cannot satisfy u < min(1, exp(.)): the move must be rejected
            self.probe("nan_hastings:" + kind)
        if rec.hr_error:
            self.violate("proposal_support", op, rec.hr_error)
        if failed:
            self.stats["hr_skipped_failed_proposal"] += 1
            self.probe("op_returned_inf:" + kind)
        elif nan_hr and (rec.hr_true is None or not math.isfinite(rec.hr_true)):
            # undefined on both sides (e.g. inf - inf in the code, -inf in the reference after an
            # overflowed trajectory): a failed proposal, nothing to compare
            self.stats["hr_skipped_failed_proposal"] += 1
        elif rec.hr_true is not None:
            self.stats["hr_checked"] += 1
            tol = 1e-6 if kind.startswith("GMRF") else 1e-8
            if not close(rec.hr, rec.hr_true, tol):
                self.violate("hastings_ratio", op, "operator returned log Hastings ratio %.12g, true log q(x|x')-log q(x'|x) = %.12g" % (rec.hr, rec.hr_true))
        # ---- target at the proposal
        nonfinite = rec.lp_s2 is None or not math.isfinite(rec.lp_s2)
        if rec.expected and rec.expected.startswith("raise:"):
            self.probe("fresh_target_raises")
        if nonfinite:
            self.stats["nonfinite_proposal"] += 1
            self.probe("nonfinite_target:" + ("nan" if rec.lp_s2 is not None and math.isnan(rec.lp_s2) else "inf" if rec.lp_s2 is not None else "raise"))
        # ---- 2. density used for the proposal (hook)
        h = rec.hook
        if h is not None and not failed and not nan_hr and h.get("log_joint_proposed") is not None and rec.lp_s2 is not None:
            if not close(h["log_joint_proposed"], rec.lp_s2) and not (nonfinite and not math.isfinite(h["log_joint_proposed"])):
                self.violate("proposed_density", op, "density used for the proposed state %.12g, target from scratch %.12g" % (h["log_joint_proposed"], rec.lp_s2))
        # ---- 3. decision
        expected = None
        if failed or nonfinite or nan_hr:
            expected = "reject"
        elif rec.u is not None and rec.alpha is not None:
            la_ref = rec.lp_s2 - rec.lp_s + rec.hr_true
            # how far the coin is from the decision boundary, in log space, against what the
            # reference itself can resolve (the GMRF reference is an iterative re-implementation)
            resolution = (1e-6 if kind.startswith("GMRF") else 1e-11) + 1e-13 * abs(la_ref)
            margin = abs(la_ref - math.log(rec.u)) if rec.u > 0 else float("inf")
            if la_ref >= 1e-9 + resolution:
                expected = "accept"  # alpha is robustly one and u < 1 always
            elif la_ref >= -resolution and rec.u > 0:
                self.stats["coin_too_close"] += 1  # alpha is one or indistinguishable from it
            elif margin <= resolution:
                self.stats["coin_too_close"] += 1
            else:
                expected = "accept" if rec.alpha > rec.u else "reject"
        elif rec.u is None and rec.hr_true is not None:
            # finite Hastings ratio, finite target, and the code never drew a coin
            expected = "coin"
        if expected == "coin":
            self.violate("decision", op, "target at the proposal is finite (%.6g) but the move was %sed without a uniform draw" % (rec.lp_s2, rec.decision))
        elif expected is not None:
            self.stats["decisions_checked"] += 1
            if rec.decision != expected:
                self.violate("decision", op, "move was %sed; reference: alpha=%s u=%s (coin %s) lp=%.10g lp'=%s HR=%s => %s" % (
                    rec.decision, rec.alpha, rec.u, (rec.coin or {}).get("policy"), rec.lp_s, rec.lp_s2, rec.hr_true, expected),
                    {"coin": (rec.coin or {}).get("policy", "-")})
        if rec.decision == "accept":
            self.stats["accepted"] += 1
        else:
            self.stats["rejected"] += 1
        # ---- 4. restore / keep
        want = rec.s if rec.decision == "reject" else rec.s2
        if rec.s3 is not None:
            self.stats["restores_checked"] += 1
            bad = [k for k in sorted(want) if tensor_digest(want[k]) != tensor_digest(rec.s3[k])]
            if bad:
                k0 = bad[0]
                self.violate("restore" if rec.decision == "reject" else "accept_state", op,
                             "after %s parameter %s is %s, expected bit-identical %s" % (rec.decision, k0, rec.s3[k0].reshape(-1)[:4].tolist(), want[k0].reshape(-1)[:4].tolist()),
                             {"parameter_kind": "transformed" if any(type(p).__name__ != "Parameter" for p in op.parameters) else "plain"})
            meta = self.snapshot_meta()
            for k in sorted(meta):
                if meta[k][2]:
                    self.violate("restore", op, "parameter %s is left with requires_grad=True after the transition" % k, {"parameter_kind": "requires_grad"})
                    break
        # ---- current state reference
        if rec.decision == "accept" and rec.s3 is not None and not bad_or_none(rec, want):
            self.fresh_cur, self.lp_cur = rec.fresh_s2, rec.lp_s2
        else:
            cur = self.snapshot()
            if rec.s is not None and all(tensor_digest(cur[k]) == tensor_digest(rec.s[k]) for k in cur):
                pass  # unchanged: reference at s is still valid
            else:
                self.fresh_cur, self.lp_cur, _ = self.fresh_at(cur)
        # ---- 5. carried density
        if h is not None and h.get("log_joint") is not None and self.lp_cur is not None:
            self.stats["carried_checked"] += 1
            if not close(h["log_joint"], self.lp_cur):
                self.violate("carried_density", op, "density carried to the next iteration %.12g, target from scratch at the current state %.12g" % (h["log_joint"], self.lp_cur))
        # ---- 7. the system's own joint, read like a logger would
        if self.sc.get("observe") and self.lp_cur is not None:
            with torch.no_grad():
                try:
                    v = float(self.mcmc.joint())
                    self.stats["observed_joint"] += 1
                    if not close(v, self.lp_cur):
                        self.violate("stale_joint", op, "joint() of the running model after %s = %.12g, freshly built model = %.12g" % (rec.decision, v, self.lp_cur))
                except Exception as e:  # noqa: BLE001
                    self.violate("stale_joint", op, "joint() raised %s after %s" % (type(e).__name__, rec.decision))
        # ---- 6 / 8. tuning
        # an operator's proposal scale answers to its own acceptance: a transition proposed by one
        # operator leaves the tuning value of every other operator alone
        for o, tv in getattr(self, "_tuning_all", []):
            if o is not op and o is not rec.op and tuning_value(o) != tv:
                self.violate("tuning_foreign", o, "the transition was proposed by %s but the tuning value of %s changed %r -> %r" % (op.id, o.id, tv, tuning_value(o)))
                break
        target = getattr(op, "target_acceptance_probability", None)
        adaptors = list(getattr(op, "_adaptors", [])) if kind == "HMCOperator" else []
        self.stats["tune_checked"] += 1
        if not adaptors:
            if getattr(op, "_disable_adaptation", False):
                if bold_after != bold_before:
                    self.violate("tuning_off", op, "adaptation is disabled but the tuning value changed %r -> %r" % (tv_before, tuning_value(op)))
            elif target is not None:
                self.direction(op, acc, target, bold_before, bold_after, "robbins-monro")
        else:
            for ad in adaptors:
                n = type(ad).__name__
                if n == "AdaptiveStepSize":
                    # the monitor keeps its own counts: calls and accepted moves since the run
                    # began and since the adaptation window opened
                    cnt = self.accept_counts.setdefault(id(ad), {"calls": 0, "acc": 0, "wcalls": 0, "wacc": 0})
                    cnt["calls"] += 1
                    cnt["acc"] += 1 if accepted_arg else 0
                    start, end = ad._start, ad._end
                    in_window = start <= cnt["calls"] <= end
                    if in_window:
                        cnt["wcalls"] += 1
                        cnt["wacc"] += 1 if accepted_arg else 0
                    rate_mode = bool(ad._acceptance_rate)
                    target_a = ad.target_acceptance_probability
                    if not in_window:
                        if bold_after != bold_before and len([a2 for a2 in adaptors if type(a2).__name__ != "MassMatrixAdaptor"]) == 1:
                            self.violate("tuning_off", op, "step size changed %r -> %r outside the adaptation window [%s, %s] (call %d)" % (bold_before, bold_after, start, end, cnt["calls"]), {"adaptor": "AdaptiveStepSize"})
                    elif not rate_mode:
                        self.direction(op, acc, target_a, bold_before, bold_after, "AdaptiveStepSize")
                    else:
                        # which "acceptance" the rate mode means is not pinned down by the property: only
                        # judge when the move's probability and both running rates agree about the side
                        stats = [acc, cnt["acc"] / cnt["calls"], cnt["wacc"] / max(cnt["wcalls"], 1)]
                        if all(x > target_a for x in stats) and bold_after < bold_before * (1 - 1e-12):
                            self.violate("tuning_direction", op, "AdaptiveStepSize(rate): move probability %.3f, rate since start %.3f and since the window opened %.3f are all above target %.3f but the step size shrank %.6g -> %.6g" % (stats[0], stats[1], stats[2], target_a, bold_before, bold_after), {"adaptor": "AdaptiveStepSize-rate"})
                        elif all(x < target_a for x in stats) and bold_after > bold_before * (1 + 1e-12):
                            self.violate("tuning_direction", op, "AdaptiveStepSize(rate): move probability %.3f, rate since start %.3f and since the window opened %.3f are all below target %.3f but the step size grew %.6g -> %.6g" % (stats[0], stats[1], stats[2], target_a, bold_before, bold_after), {"adaptor": "AdaptiveStepSize-rate"})
                elif n == "DualAveragingStepSize":
                    self.dual_averaging_reference(op, ad, acc)
        # ---- bookkeeping
        self.expect_logged(rec.t + 1)
        key = "%s|%s|%s|%s|%s|%s" % (self.sc.get("scene_class", "?"), kind, (rec.coin or {}).get("policy", "nocoin"), rec.decision,
                                    "inf" if failed else ("0" if rec.hr == 0 else "finite"), "finite" if not nonfinite else "nonfinite")
        self.states[key] = self.states.get(key, 0) + 1
        self.probe("transitions:" + kind)
        if rec.hr_true is not None and not failed:
            self.probe("hastings_checked:" + kind)
        self.trace.append({"op": rec.op_index, "seed": rec.seed, "coin": rec.coin or {"policy": "uniform", "u": 0.5}})
        self.log.add("finish", rec.t, rec.decision, rec.u, rec.alpha, rec.hr_true, self.lp_cur, tuning_value(op))
        rec.s = rec.s2 = rec.s3 = rec.fresh_s2 = None  # free memory
        self.records.append(rec)
        if len(self.violations) >= 6:
            raise _Stop()

    def direction(self, op, stat, target, before, after, what):
        if stat > target and after < before * (1 - 1e-12):
            self.violate("tuning_direction", op, "%s: acceptance %.4f above target %.4f made the proposal more timid (boldness %.6g -> %.6g)" % (what, stat, target, before, after), {"adaptor": what})
        elif stat < target and after > before * (1 + 1e-12):
            self.violate("tuning_direction", op, "%s: acceptance %.4f below target %.4f made the proposal bolder (boldness %.6g -> %.6g)" % (what, stat, target, before, after), {"adaptor": what})

    def dual_averaging_reference(self, op, ad, acc):
        """Reference recurrence (Hoffman & Gelman 2014, as in Stan)."""
        ref = self.da_ref.get(id(ad))
        da = ad._dual_avg
        if ref is None:
            ref = self.da_ref[id(ad)] = {"counter": da._counter - 1, "s_bar": None, "x_bar": None, "sync": False}
        c = ad._call_counter
        if not (ad._start <= c <= ad._end):
            return
        if not ref["sync"]:
            # first observed step: adopt the state after it, check from the next one on
            ref.update(counter=da._counter, s_bar=da.s_bar, x_bar=da.x_bar, sync=True)
            return
        ref["counter"] += 1
        m = ref["counter"]
        eta = 1.0 / (m + da._t0)
        ref["s_bar"] = (1.0 - eta) * ref["s_bar"] + eta * (ad._delta - acc)
        x = da._mu - ref["s_bar"] * math.sqrt(m) / da._gamma
        xe = m ** (-da._kappa)
        ref["x_bar"] = (1.0 - xe) * ref["x_bar"] + xe * x
        if da._counter != m:
            ref.update(counter=da._counter, s_bar=da.s_bar, x_bar=da.x_bar)  # restarted window
            return
        if not close(math.exp(x), op._integrator.step_size, 1e-9):
            self.violate("tuning_direction", op, "dual averaging step size %.10g differs from the reference recurrence %.10g" % (op._integrator.step_size, math.exp(x)), {"adaptor": "DualAveragingStepSize-recurrence"})


def bad_or_none(rec, want):
    return any(tensor_digest(want[k]) != tensor_digest(rec.s3[k]) for k in want)


# ----------------------------------------------------------------------------
# executing one run
# ----------------------------------------------------------------------------
def prepare_spec(scenario):
    recipe = scenario["recipe"]
    spec, meta = build_spec(recipe)
    m = scenes.find(spec, meta["algo_id"])
    m["checkpoint"] = False
    m["every"] = int(recipe.get("every") or 0)  # screen report frequency (stdout is dropped by the worker)
    # knobs applied to configurations the CLI emitted (operator options only, the model is untouched)
    ko = recipe.get("op_knobs") or {}
    for op in m.get("operators", []):
        if not isinstance(op, dict):
            continue
        t = str(op.get("type", ""))
        if ko.get("disable_adaptation"):
            op["disable_adaptation"] = True
        if ko.get("target_acc") and "HMC" not in t:
            op["target_acceptance_probability"] = ko["target_acc"]
        if "GMRF" in t and ko.get("gmrf_scaler") is not None:
            op["scaler"] = ko["gmrf_scaler"]
        if t.endswith("SlidingWindowOperator") and ko.get("width_scale"):
            op["width"] = op.get("width", 0.5) * ko["width_scale"]
    return spec, meta, m


def execute(scenario, log=None):
    import torch

    import torchtree.inference.mcmc.mcmc as mcmc_mod
    from torchtree.core.utils import process_objects

    if log is None:
        log = EventLog()
    spec, meta, mspec = prepare_spec(scenario)
    n = len(scenario["trace"]) if scenario.get("trace") is not None else scenario["transitions"]
    mspec["iterations"] = n
    fs = SimFS(buffer_size=scenario.get("buffer", 8192))
    simfs.activate(fs)
    torch.set_default_dtype(torch.float64)
    result = {"violations": [], "states": {}, "stats": {}, "probes": {}, "digest": None, "trace": [], "excluded": None}
    sim = None
    try:
        dic = {}
        try:
            for element in copy.deepcopy(spec):
                process_objects(element, dic)
        except Exception as e:  # noqa: BLE001 - the scene does not load on this tree
            result["excluded"] = "scene does not load: %s: %s" % (type(e).__name__, str(e)[:200])
            result["digest"] = log.digest()
            return result
        mcmc = dic[meta["algo_id"]]
        sim = McmcSim(spec, dic, mcmc, scenario, log, fs)
        with Patch() as patch:
            patch.set(mcmc_mod, "torch", TorchProxy(sim))
            import torchtree.inference.mcmc.operator as operator_mod

            sim.op_torch = OpTorchProxy(sim)
            patch.set(operator_mod, "torch", sim.op_torch)
            patch.set(mcmc_mod, "SignalHandler", SimSignalHandler)
            patch.set(mcmc_mod, "_VERIF_TRACE", sim.on_trace)
            wrapped = set()
            for op in mcmc._operators:
                if id(op) in wrapped:
                    continue  # the same operator may be listed more than once
                wrapped.add(id(op))
                op.step = sim.wrap_step(op, op.step)
                op.accept = sim.wrap_decision(op, op.accept, "accept")
                op.reject = sim.wrap_decision(op, op.reject, "reject")
                op.tune = sim.wrap_tune(op, op.tune)
                if op_kind(op) == "HMCOperator":
                    op._hamiltonian.sample_momentum = sim.wrap_momentum(op._hamiltonian.sample_momentum)
                    op._integrator = IntegratorProxy(op._integrator, sim)
            sim.on_run_start()
            out = io.StringIO()
            import contextlib

            try:
                with contextlib.redirect_stdout(out):
                    mcmc.run()
            except _Stop:
                for lg in getattr(mcmc, "loggers", ()):
                    try:
                        lg.close()
                    except Exception:  # noqa: BLE001
                        pass
            except ZeroDivisionError:
                sim.probe("summary_zero_division")  # final print of a run in which an operator was never selected
            except Exception as e:  # noqa: BLE001 - the run died
                rec = sim.cur
                cls = type(e).__name__
                agree = False
                if rec is not None and rec.s2 is not None:
                    _, _, err = sim.fresh_at(sim.snapshot())
                    agree = err is not None
                if agree:
                    sim.probe("run_aborted_target_undefined:" + cls)
                else:
                    import traceback

                    sim.violate("run_raises", rec.op if rec is not None else None, "MCMC.run raised %s: %s\n%s" % (cls, str(e)[:200], traceback.format_exc()[-1200:]), {"exception": cls})
        check_log_rows(sim, fs)
    finally:
        simfs.deactivate()
    result.update(violations=_dedupe(sim.violations), states=sim.states, stats=sim.stats, probes=sim.probes, trace=sim.trace)
    from sim import faulty

    for k, v in faulty.FIRED.items():
        result["probes"]["fault_wall_" + k] = v
    faulty.FIRED.clear()
    log.add("end", sorted(sim.stats.items()), len(sim.violations))
    result["digest"] = log.digest()
    return result


def check_log_rows(sim, fs):
    """Every complete row of the sample log must be self-consistent."""
    for li, lg in enumerate(sim.logger_specs):
        data = fs.durable(lg.file_name)
        if data is None:
            continue
        delim = lg.kwargs.get("delimiter", ",")
        text = data.decode(errors="replace")
        if not text.endswith("\n"):
            # the run died with rows still buffered: the last durable line is torn (a cut number
            # such as "0.0" out of "0.0010000000000000002" still parses) - judge complete rows only
            text = text[: text.rfind("\n") + 1]
        rows = list(csv.reader(io.StringIO(text), delimiter=delim))
        if not rows:
            continue
        for row in rows[1:]:
            try:
                sample = int(float(row[0]))
                vals = [float(x) for x in row[1:]]
            except ValueError:
                continue  # torn last line of an interrupted run
            exp = sim.logged_expect.get((li, sample))
            if exp is None:
                if sample <= len(sim.records):
                    sim.violations.append({"signature": {"engine": "mcmc_sim", "oracle": "log_row", "operator": "-", "what": "unexpected_row"},
                                           "message": "log row labelled %d was not due (every=%d)" % (sample, lg.every), "t": sample - 1})
                continue
            flat = []
            okrow = True
            for e in exp:
                if e is None or isinstance(e, str):
                    okrow = False
                    break
                flat.extend(e)
            if not okrow:
                continue
            sim.stats["rows_checked"] += 1
            if len(flat) != len(vals) or any(not close(a, b) for a, b in zip(flat, vals)):
                j = next((i for i, (a, b) in enumerate(zip(flat, vals)) if not close(a, b)), -1)
                sim.violations.append({"signature": {"engine": "mcmc_sim", "oracle": "log_row", "operator": "-", "what": "value"},
                                       "message": "log row %d column %d holds %r but the target/parameters at that state are %r" % (sample, j + 1, vals[j] if j >= 0 else len(vals), flat[j] if j >= 0 else len(flat)), "t": sample - 1})


def _dedupe(vs):
    seen = set()
    out = []
    for v in vs:
        k = json.dumps(v["signature"], sort_keys=True)
        if k not in seen:
            seen.add(k)
            out.append(v)
    return out


# ----------------------------------------------------------------------------
# scenarios
# ----------------------------------------------------------------------------
HMC_NAMES = ["hmc", "hmc-adaptive", "hmc-dual", "hmc-mass", "hmc-dense", "hmc-dense-mass", "hmc-mass-adaptive", "hmc-dense-mass-dual"]
CLI_SCENES = [
    ("mcmc", ["--clock", "strict", "--coalescent", "constant"]),
    ("mcmc", ["--clock", "strict", "--coalescent", "skygrid", "--grid", "5", "--cutoff", "10", "-m", "HKY", "-C", "4"]),
    ("mcmc", ["--clock", "strict", "--coalescent", "skyride"]),
    ("mcmc", ["--clock", "strict", "--coalescent", "skygrid", "--grid", "8", "--cutoff", "12"]),
    ("mcmc", ["--clock", "strict", "--coalescent", "piecewise-constant", "--grid", "4", "--cutoff", "8"]),
    ("mcmc", ["-m", "GTR"]),
    ("mcmc", ["--clock", "strict", "--coalescent", "exponential", "--heights", "shift"]),
    ("hmc", ["--clock", "strict", "--coalescent", "constant", "--steps", "3", "--step_size", "0.002"]),
    ("hmc", ["--clock", "strict", "--coalescent", "constant", "--steps", "3", "--step_size", "0.002", "--adapt_step_size", "adaptive"]),
    ("hmc", ["--steps", "3", "--step_size", "0.002", "--adapt_step_size", "dualaveraging", "--adapt_mass_matrix"]),
    ("hmc", ["--steps", "2", "--step_size", "0.002", "--mass_matrix", "dense", "--split"]),
]


def scene_class(r):
    if r["kind"] == "toy_mcmc":
        return "toy:" + "+".join(r["operators"]) + (":T" if r.get("transformed_op") else "") + (":V" if r.get("view_op") else "") + (":wall" if r.get("faulty") else "")
    return "cli:%s:%s" % (r["sub"], " ".join(a for a in r["args"] if not a.startswith("/")))


def generate(seed, index, tier):
    st = Streams(run_seed(seed, PROP, index))
    k = st["knobs"]
    u = k.random()
    if u < 0.62:
        nops = k.randint(1, 4)
        pool_ops = ["sliding", "sliding2", "scaler", "dirichlet", k.choice(HMC_NAMES)]
        ops = k.sample(pool_ops, nops)
        recipe = {"kind": "toy_mcmc", "operators": ops, "iterations": 1, "freq": 1000, "logger": k.bernoulli(0.6), "log_every": k.choice([1, 1, 2, 5]),
                  "window": k.choice([None, 3, 10]), "disable_adaptation": k.bernoulli(0.12), "tune_scale": k.loguniform(0.03, 30.0) if k.bernoulli(0.6) else None,
                  "target_acc": k.choice([None, None, 0.1, 0.5, 0.9]), "mass_freq": k.choice([2, 4]), "mass_swap": k.choice([0, 0, 5]), "use_acceptance_rate": k.bernoulli(0.2),
                  "leap_steps": k.randint(1, 5), "dim": k.choice([1, 2, 3, 5]), "transformed_op": k.bernoulli(0.1),
                  "adapt_start": k.choice([None, None, 5, 20]), "adapt_end": k.choice([None, None, None, 40]), "view_op": k.bernoulli(0.12), "dup_op": k.bernoulli(0.1)}
        if k.bernoulli(0.25):
            recipe["faulty"] = {"watch": k.choice(["x", "z"]), "index": 0, "lo": k.uniform(-2.0, -0.2), "hi": k.uniform(0.8, 3.0), "value": k.choice(["-inf", "-inf", "nan", "+inf"])}
        transitions = k.randint(20, 120)
        k2 = st["knobs2"]
        # the screen report of MCMC.run (every > 0) runs inside the loop, between the decision and the tuning
        recipe["every"] = k2.choice([0, 0, 1, 3, 4, 7])
        if k2.bernoulli(0.3):
            # blocks coupled through z | x; HMC may then own one block only while another operator moves the other
            recipe["coupled"] = True
            if any(o.startswith("hmc") for o in ops) and k2.bernoulli(0.7):
                recipe["hmc_params"] = k2.choice([["x"], ["z"], ["x", "z"]])
                recipe["hmc_conditional"] = True  # (only used when HMC owns x alone and no fault wall replaces the target)
                other = "slidingz" if recipe["hmc_params"] == ["x"] else "sliding"
                if other not in ops:
                    recipe["operators"] = ops + [other]
    else:
        if k.bernoulli(0.35):
            # any model the CLI can emit, under the sliding-window / block-update mixture or HMC
            from sim.scenelib import CLI_MODEL_VECTORS

            sub = k.choice(["mcmc", "mcmc", "hmc"])
            args = list(k.choice(CLI_MODEL_VECTORS)) + (["--steps", "3", "--step_size", "0.002"] if sub == "hmc" else [])
        else:
            sub, args = k.choice(CLI_SCENES)
        recipe = {"kind": "cli", "sub": sub, "args": args, "iterations": 1, "freq": 1000, "log_every": k.choice([1, 2, 5]), "logger": k.bernoulli(0.7),
                  "every": k.choice([0, 0, 1, 5]), "op_knobs": {"disable_adaptation": k.bernoulli(0.2), "target_acc": k.choice([None, None, 0.1, 0.6]),
                               "gmrf_scaler": k.choice([None, None, 1.0, 1.0, 1.3, 5.0]), "width_scale": k.choice([None, None, 0.1, 4.0])}}
        transitions = k.randint(15, 80) if sub == "mcmc" else k.randint(8, 25)
    pol = k.weighted(["weights", "weights", "single", "roundrobin", "bursts"], [4, 0, 2, 2, 1])
    ops_policy = {"kind": pol}
    if pol == "single":
        ops_policy["index"] = k.randint(0, 7)
    if pol == "bursts":
        ops_policy["len"] = k.randint(2, 8)
    if recipe["kind"] == "cli" and "skygrid" in recipe["args"] and k.bernoulli(0.6):
        ops_policy = {"kind": "class", "name": "GMRF"}
    coin = k.choice([[4, 4, 1, 1], [4, 4, 1, 1], [1, 8, 0, 1], [0, 0, 1, 0], [0, 0, 0, 1], [1, 0, 0, 0], [2, 6, 1, 3]])
    return {"recipe": recipe, "seed": run_seed(seed, PROP, index), "transitions": transitions, "policy": {"ops": ops_policy, "coin": coin},
            "observe": k.bernoulli(0.5), "scene_class": scene_class(recipe)}


def minimise(scenario, sig, trace, t_fail, budget=30):
    tests = [0]

    def fails(tr, sc=None):
        if tests[0] >= budget or not tr:
            return False
        tests[0] += 1
        cand = dict(sc or scenario, trace=tr)
        try:
            r = execute(cand)
        except Exception:  # noqa: BLE001
            return False
        return any(v["signature"] == sig for v in r["violations"])

    best = trace[: t_fail + 1] if t_fail is not None and t_fail >= 0 else list(trace)
    if not fails(best):
        best = list(trace)
        if not fails(best):
            return dict(scenario, trace=trace)
    if len(best) > 1:
        head = ddmin(best[:-1], lambda sub: fails(sub + [best[-1]]), max_tests=budget)
        if fails(head + [best[-1]]):
            best = head + [best[-1]]
    sc = dict(scenario)
    for key, val in (("observe", False),):
        if sc.get(key) != val:
            c2 = dict(sc)
            c2[key] = val
            tests[0] = min(tests[0], budget - 1)
            if fails(best, c2):
                sc = c2
    return dict(sc, trace=best)


# ----------------------------------------------------------------------------
# driver interface
# ----------------------------------------------------------------------------
TIMEOUT = {"quick": 1500, "thorough": 8 * 3600}
SELFTEST_N = {"quick": 6, "thorough": 32}


def plan(tier, seed, scale=1.0):
    n = int({"quick": 960, "thorough": 40000}[tier] * scale)
    per = 12 if tier == "quick" else 25
    return [{"kind": "runs", "seed": seed, "lo": lo, "hi": min(n, lo + per), "tier": tier} for lo in range(0, n, per)]


def selftest_indices(tasks, n):
    step = max(1, len(tasks) // n)
    return list(range(0, len(tasks), step))[:n]


def run_task(task):
    from sim import envinfo

    if task["kind"] == "replay":
        r = execute(task["scenario"])
        return {"violations": [dict(v, scenario=task["scenario"], engine=ENGINE) for v in r["violations"]], "digest": r["digest"]}
    log = EventLog()
    agg = {"violations": [], "states": {}, "stats": {}, "probes": {}, "runs": 0, "samples": [], "excluded": []}
    seen = set()
    for i in range(task["lo"], task["hi"]):
        sc = generate(task["seed"], i, task["tier"])
        r = execute(sc)
        log.add(i, r["digest"])
        if r["excluded"]:
            agg["excluded"].append({"scene": sc["scene_class"], "reason": r["excluded"]})
            continue
        agg["runs"] += 1
        for k, v in r["states"].items():
            agg["states"][k] = agg["states"].get(k, 0) + v
        for k, v in r["stats"].items():
            agg["stats"][k] = agg["stats"].get(k, 0) + v
        for k, v in r["probes"].items():
            agg["probes"][k] = agg["probes"].get(k, 0) + v
        if not agg["samples"]:
            agg["samples"].append({"recipe": sc["recipe"], "policy": sc["policy"], "transitions": sc["transitions"], "first_trace_entries": r["trace"][:4]})
        for v in r["violations"]:
            key = json.dumps(v["signature"], sort_keys=True)
            if key in seen:
                continue
            seen.add(key)
            small = minimise(sc, v["signature"], r["trace"], v.get("t"))
            rr = execute(small)
            vv = [x for x in rr["violations"] if x["signature"] == v["signature"]]
            final = small if vv else dict(sc, trace=r["trace"])
            agg["violations"].append({"signature": v["signature"], "message": (vv[0] if vv else v)["message"], "scenario": final, "engine": ENGINE,
                                      "found_by": "seed=%d run=%d" % (task["seed"], i), "environment": envinfo.environment()})
    agg["digest"] = log.digest()
    return agg


def summarize(tasks, results, tier, seed):
    states, stats, probes = {}, {}, {}
    runs = 0
    samples, excluded = [], []
    for r in results:
        runs += r["runs"]
        excluded.extend(r["excluded"])
        for k, v in r["states"].items():
            states[k] = states.get(k, 0) + v
        for k, v in r["stats"].items():
            stats[k] = stats.get(k, 0) + v
        for k, v in r["probes"].items():
            probes[k] = probes.get(k, 0) + v
        if len(samples) < 3 and r["samples"]:
            samples.append(r["samples"][0])
    nontrivial = [s for s in states if "|nocoin|" not in s or "|inf|" in s or "nonfinite" in s]
    ex = {}
    for e in excluded:
        ex[e["scene"] + " :: " + e["reason"]] = ex.get(e["scene"] + " :: " + e["reason"], 0) + 1
    return {
        "evaluations": max(runs, 1),
        "distinct_nontrivial": len(nontrivial),
        "rule": "one evaluation = one simulated MCMC run (real MCMC.run, 8..120 transitions) under a simulator-owned operator schedule, coin sequence and per-transition re-seed. Distinct = (scene class, operator class, coin policy {uniform, boundary, zero, one, nocoin}, decision, Hastings class {0, finite, inf}, target class {finite, nonfinite}) tuples that occurred; non-trivial = the transition drew a coin, or took one of the failure branches.",
        "samples": samples,
        "transitions": stats.get("transitions", 0),
        "simulated_time": {"mcmc_transitions": stats.get("transitions", 0)},
        "checks_performed": stats,
        "faults_and_rare_branches_fired": probes,
        "excluded_workload": ex,
        "state_histogram_size": len(states),
        "real_code": ["MCMC.run", "ScalerOperator/SlidingWindowOperator/DirichletOperator/GMRFPiecewiseCoalescentBlockUpdatingOperator/HMCOperator", "LeapfrogIntegrator, Hamiltonian, AdaptiveStepSize, DualAveragingStepSize, MassMatrixAdaptor", "every model class in the scenes", "Logger over SimFS"],
        "stubs": ["operator-choice draw (Categorical.sample) and accept/reject coin (torch.rand) inside mcmc.py", "torch generator re-seeded per transition", "SIGINT handler", "file system (SimFS)", "FaultyTarget hard wall (harness class, also used by the reference)"],
    }
