"""C18 - a crash while writing a checkpoint never loses the last good checkpoint.

Engine crash_fs: the real save_parameters(), reached through the real
MCMC.save_full_state / Optimizer.save_full_state, runs over SimFS.  Depth 1
(one interrupted write over a complete checkpoint) is swept completely for
every fs-operation boundary, torn write, ENOSPC and a sample of asynchronous
interrupts; sequences of 2..6 consecutive interrupted writes are seeded search.
"""
from __future__ import annotations

import json
import os

from sim import simfs
from sim.core import EventLog, Rng, Streams, ddmin, run_seed
from sim.simfs import SimCrash, SimFS

PROP = "C18"
ENGINE = "c18"
LEVEL = "fault_enumeration"
ASSUMPTIONS = [
    "failure model is process death (kill / unhandled exception): completed write syscalls are durable, user-space buffers are lost; power loss / fsync ordering is out of scope because the property says 'if the process dies'",
    "the file system is SimFS (in-memory, POSIX rename-replaces semantics); builtins.open, io.open, os.rename/replace/remove/unlink/stat/lstat are routed to it for paths below /simfs",
    "'complete' means: parses as JSON, parses with torchtree's TensorDecoder and is structurally equal to the serialisation of exactly one generation",
    "'last good checkpoint' = the newest generation that has ever been complete under the checkpoint name itself; before any checkpoint was installed there is nothing to lose and only the no-mixture clause is judged",
]

DEFAULT_NAME = simfs.VROOT + "/run/checkpoint.json"
# unusual but legal checkpoint names: no '.json' suffix, no suffix at all, '.json' inside a directory
# name, another directory
NAMES = [DEFAULT_NAME, simfs.VROOT + "/run/state.ckpt", simfs.VROOT + "/run/checkpoint", simfs.VROOT + "/run.json.d/chk", simfs.VROOT + "/other/dir/c.json"]
NAME = DEFAULT_NAME
OLD = NAME + ".old"
NEW = NAME + ".new"


def use_name(name):
    """Select the checkpoint name of the scenario being executed (workers run one scenario at a time)."""
    global NAME, OLD, NEW
    NAME = name or DEFAULT_NAME
    OLD = NAME + ".old"
    NEW = NAME + ".new"

SIZES = {"small": 3, "medium": 150, "large": 2500}
BUFFERS = [1, 7, 64, 512, 4096, 8192, 1000000]
CALLERS = ["mcmc", "optimizer", "direct"]
# (size, buffer) combinations whose op count keeps the exhaustive sweep tractable
SWEEP_CONFIGS = (
    [("small", b) for b in BUFFERS]
    + [("medium", b) for b in (64, 512, 4096, 8192, 1000000)]
    + [("large", b) for b in (512, 4096, 8192, 1000000)]
)

_STATE = {}


def worker_init():
    from sim import envinfo

    envinfo.setup()


# ----------------------------------------------------------------------------
# the system under test: real torchtree objects that own a checkpoint
# ----------------------------------------------------------------------------
def _system(caller, size):
    key = (caller, size)
    if key in _STATE:
        return _STATE[key]
    import torch

    from torchtree.core.parameter import Parameter
    from torchtree.inference.mcmc.mcmc import MCMC
    from torchtree.inference.mcmc.operator import ScalerOperator, SlidingWindowOperator
    from torchtree.optim.optimizer import Optimizer

    n = SIZES[size]
    p0 = Parameter("p0", torch.zeros(n, dtype=torch.float64))
    p1 = Parameter("p1", torch.zeros(3, dtype=torch.float32))
    obj = None
    if caller == "mcmc":
        ops = [
            ScalerOperator("op0", [p0], 1.0, 0.24, 0.5),
            SlidingWindowOperator("op1", [p1], 1.0, 0.24, 0.1),
        ]
        obj = MCMC("mcmc", None, ops, 100, checkpoint=NAME, checkpoint_frequency=1)
    elif caller == "optimizer":
        p0.tensor.requires_grad_(False)
        opt = torch.optim.Adam([p0.tensor, p1.tensor], lr=0.1)
        obj = Optimizer("opt", [p0, p1], None, opt, 100, checkpoint=NAME, checkpoint_frequency=1)
    _STATE[key] = (obj, p0, p1)
    return _STATE[key]


def _set_generation(caller, size, g):
    """Make every saved value depend on the generation number."""
    import torch

    obj, p0, p1 = _system(caller, size)
    if obj is not None:
        obj.checkpoint = NAME
    n = SIZES[size]
    with torch.no_grad():
        p0._tensor = torch.arange(n, dtype=torch.float64) * 1e-3 + float(g) + 0.125
        p1._tensor = torch.tensor([g, g + 0.5, -g], dtype=torch.float32)
    pad = (g * 7) % 5  # the serialisation of a later generation may be shorter than an earlier one
    if caller == "mcmc":
        from collections import deque

        obj._epoch = g
        obj._operators[0]._accept_window = deque([1] * pad)
        obj._operators[0]._scaler = 0.5 + 0.001 * g
        obj._operators[0]._accept = g
        obj._operators[1]._width = 0.1 + g
    elif caller == "optimizer":
        obj._epoch = g
        obj.optimizer.param_groups[0]["params"] = [p0.tensor, p1.tensor]
        obj.optimizer.param_groups[0]["lr"] = 0.1 + 0.001 * g
        obj.optimizer.param_groups[0]["weight_decay"] = [0.0, 0.5, 0.25, 0.125, 0.0625][pad]
    return obj, p0, p1


def _full_state(caller, size, g):
    obj, p0, p1 = _set_generation(caller, size, g)
    if caller == "mcmc":
        st = {"id": obj.id, "type": "MCMC"}
        st.update(obj.state_dict())
        return [st] + obj.parameters
    if caller == "optimizer":
        st = {"id": obj.id, "type": "Optimizer"}
        st.update(obj.state_dict())
        return [st] + obj.parameters
    return [{"id": "algo", "type": "MCMC", "iteration": g, "window": [1] * ((g * 7) % 5)}, p0, p1]


def reference(caller, size, g):
    """Parsed structure of generation g (in-memory serialisation, no fs)."""
    from torchtree.core.parameter_encoder import ParameterEncoder

    return json.loads(json.dumps(_full_state(caller, size, g), cls=ParameterEncoder))


def do_save(caller, size, g):
    """One checkpoint write through the public path of the chosen caller."""
    obj, p0, p1 = _set_generation(caller, size, g)
    if caller == "mcmc":
        obj.save_full_state()
    elif caller == "optimizer":
        obj.save_full_state(obj.checkpoint)
    else:
        from torchtree.core.parameter_utils import save_parameters

        save_parameters(NAME, _full_state(caller, size, g))


# ----------------------------------------------------------------------------
# ref_dir: classification of a directory state
# ----------------------------------------------------------------------------
def classify(data, refs):
    """absent | ('complete', g) | truncated | mixture"""
    if data is None:
        return ("absent", None)
    try:
        parsed = json.loads(data.decode("utf-8"))
    except (ValueError, UnicodeDecodeError):
        return ("truncated", None)
    for g, ref in refs.items():
        if parsed == ref:
            try:
                from torchtree.core.utils import TensorDecoder

                json.loads(data.decode("utf-8"), cls=TensorDecoder)
            except Exception:  # noqa: BLE001
                return ("truncated", None)
            return ("complete", g)
    return ("mixture", None)


def dir_class(fs, refs):
    return {
        "name": classify(fs.durable(NAME), refs),
        "old": classify(fs.durable(OLD), refs),
        "new": classify(fs.durable(NEW), refs),
    }


def _short(c):
    return {"absent": "A", "complete": "C", "truncated": "T", "mixture": "M"}[c[0]] + ("" if c[1] is None else str(c[1]))


def _abbr(dc):
    return "name=%s old=%s new=%s" % (_short(dc["name"]), _short(dc["old"]), _short(dc["new"]))


def _kinds(dc):
    return "".join(_short(dc[k])[0] for k in ("name", "old", "new"))


# ----------------------------------------------------------------------------
# executing one scenario (pure function of the scenario and the code in /repo)
# ----------------------------------------------------------------------------
def probe_ops(fs, caller, size, g):
    """Fault-free dry run of attempt g on a copy of the durable state.
    Returns the op log; the fs is restored afterwards."""
    snap = fs.snapshot()
    fs.arm(None)
    try:
        do_save(caller, size, g)
    finally:
        log = list(fs.oplog)
        uw = fs.user_writes
        fs.disarm()
        fs.restore(snap)
    return log, uw


def execute(scenario, log=None):
    """Run a scenario.  Returns dict(violations, states, stats, digest)."""
    if scenario.get("mode") == "runloop":
        use_name(None)
        return execute_runloop(scenario, log)
    use_name(scenario.get("name"))
    caller, size, buf = scenario["caller"], scenario["size"], scenario["buffer"]
    if log is None:
        log = EventLog()
    fs = SimFS(buffer_size=buf)
    simfs.activate(fs)
    violations = []
    states = []
    stats = {"attempts": 0, "crashed": 0, "completed": 0, "fs_ops": 0, "exceptions": 0}
    fired = {}
    refs = {}
    gen = 0
    last_good = None
    try:
        if scenario["start"] == "g0":
            refs[0] = reference(caller, size, 0)
            fs.arm(None)
            do_save(caller, size, 0)
            fs.disarm()
            dc = dir_class(fs, refs)
            if dc["name"] != ("complete", 0) or dc["old"][0] != "absent" or dc["new"][0] != "absent":
                violations.append(_viol("faultfree_wrong", "first", dc, dc, None, "after a fault-free first write: " + _abbr(dc)))
                return _result(violations, states, stats, fired, log)
            last_good = 0
        for att in scenario["attempts"]:
            gen += 1
            refs[gen] = reference(caller, size, gen)
            if att.get("action") == "recover":
                _recover(fs, refs)
            before = dir_class(fs, refs)
            if before["name"][0] == "complete":
                last_good = before["name"][1] if last_good is None else max(last_good, before["name"][1])
            fault = att.get("fault")
            stats["attempts"] += 1
            fs.arm(dict(fault) if fault else None)
            outcome = "completed"
            exc_txt = None
            try:
                do_save(caller, size, gen)
            except SimCrash as e:
                outcome = "crash"
            except BaseException as e:  # noqa: BLE001 - the process ends by exception
                outcome = "exception"
                exc_txt = type(e).__name__
                fs.kill()
            finally:
                nops = fs.seq
                oplog = list(fs.oplog)
                for k, v in fs.fired.items():
                    fired[k] = fired.get(k, 0) + v
                fs.fired = {}
                fs.kill()
                fs.disarm()
            stats["fs_ops"] += nops
            after = dir_class(fs, refs)
            log.add("attempt", gen, att.get("action"), fault, outcome, exc_txt, [(o[0], o[1], o[2], o[3]) for o in oplog], _abbr(after))
            last_kind = oplog[-1][1] if oplog else "none"
            states.append("%s|%s|%s|%s|%s" % (_kinds(before), fault["kind"] if fault else "none", last_kind, outcome, _kinds(after)))
            if outcome == "completed":
                stats["completed"] += 1
                # a write that returned normally must have installed the new generation
                if after["name"] != ("complete", gen):
                    violations.append(_viol("faultfree_wrong", fault, before, after, last_kind,
                                            "write returned normally but %s" % _abbr(after)))
                elif fault is None and (after["old"][0] != "absent" or after["new"][0] != "absent") and before["old"][0] == "absent" and before["new"][0] == "absent":
                    violations.append(_viol("faultfree_leftover", fault, before, after, last_kind,
                                            "fault-free write left a sibling behind: %s" % _abbr(after)))
            else:
                stats["crashed" if outcome == "crash" else "exceptions"] += 1
                if fault is None:
                    violations.append(_viol("exception_without_fault", fault, before, after, last_kind,
                                            "save raised %s without any injected fault" % exc_txt))
            vs = judge(before, after, gen, fault, last_kind, last_good)
            violations.extend(vs)
            if after["name"][0] == "complete":
                last_good = after["name"][1] if last_good is None else max(last_good, after["name"][1])
            if vs:
                break
    finally:
        simfs.deactivate()
    return _result(violations, states, stats, fired, log)


def _result(violations, states, stats, fired, log):
    return {"violations": violations, "states": states, "stats": stats, "fired": fired, "digest": log.digest()}


def _recover(fs, refs):
    """The obvious manual recovery: if the checkpoint name is missing, rename the
    newest complete sibling to it."""
    if fs.durable(NAME) is not None:
        return
    best = None
    for p in (NEW, OLD):
        c = classify(fs.durable(p), refs)
        if c[0] == "complete" and (best is None or c[1] > best[1]):
            best = (p, c[1])
    if best is not None:
        fs.files[NAME] = fs.files.pop(best[0])


def judge(before, after, gen, fault, last_kind, last_good):
    """`last_good` is the newest generation that has ever been complete under the
    checkpoint name itself (= the last good checkpoint); None when no checkpoint
    was ever installed, in which case there is nothing to lose and only clause 3
    is judged (the property speaks of a write "over an existing one")."""
    out = []
    # clause 1: the checkpoint name never refers to a truncated / mixed file
    if last_good is not None and after["name"][0] in ("truncated", "mixture"):
        out.append(_viol("name_" + after["name"][0], fault, before, after, last_kind,
                         "checkpoint name refers to a %s file after the crash (%s -> %s)" % (after["name"][0], _abbr(before), _abbr(after))))
    # clause 3: no file is a mixture of two generations
    for k in ("name", "old", "new"):
        if after[k][0] == "mixture" and not (k == "name" and last_good is not None):
            out.append(_viol("mixture", fault, before, after, last_kind,
                             "%s parses but equals no generation (%s)" % (k, _abbr(after))))
    # clause 2: the last good checkpoint, or something newer and complete, is still there
    if last_good is not None:
        complete_after = {v[1] for v in after.values() if v[0] == "complete"}
        if not any(g >= last_good for g in complete_after):
            out.append(_viol("checkpoint_lost", fault, before, after, last_kind,
                             "last good checkpoint was generation %d; after the crash no complete checkpoint of generation >= %d is left (%s -> %s)" % (last_good, last_good, _abbr(before), _abbr(after))))
    return out


def _viol(clause, fault, before, after, last_kind, msg):
    sig = {
        "engine": "crash_fs",
        "clause": clause,
        "name_at_start": _short(before["name"])[0] if isinstance(before, dict) else "?",
        "siblings_at_start": (_short(before["old"])[0] + _short(before["new"])[0]) if isinstance(before, dict) else "?",
    }
    return {"signature": sig, "message": msg, "fault": fault if isinstance(fault, dict) else None}


# ----------------------------------------------------------------------------
# fault enumeration / generation
# ----------------------------------------------------------------------------
def enumerate_faults(oplog, user_writes, rng=None, interrupts=12):
    faults = []
    for (k, kind, path, info) in oplog:
        faults.append({"kind": "crash_before", "op": k})
        faults.append({"kind": "crash_after", "op": k})
        if kind in ("rename", "remove", "link", "close", "open_w"):
            # KeyboardInterrupt raised between two operations of the protocol (exception handlers and
            # `finally` blocks of the code under test run, unlike at a process death)
            faults.append({"kind": "interrupt_op", "op": k})
        if kind == "write":
            ln = info["len"]
            ns = sorted({0, 1, ln // 2, max(ln - 1, 0)} & set(range(0, ln + 1)))
            for n in ns:
                if n < ln:
                    faults.append({"kind": "torn", "op": k, "n": n})
            for n in sorted({0, ln // 2}):
                faults.append({"kind": "enospc", "op": k, "n": n})
            # short write (count returned, no error): the other face of a full disk / a file-size limit
            for n in sorted({ln // 2} | ({0, max(ln - 1, 0)} if info.get("raw") else set())):
                if n < ln:
                    faults.append({"kind": "short", "op": k, "n": n})
    js = set(range(min(user_writes, 4))) | set(range(max(0, user_writes - 4), user_writes))
    if rng is not None and user_writes > 8:
        for _ in range(interrupts):
            js.add(rng.randint(0, user_writes - 1))
    for j in sorted(js):
        faults.append({"kind": "interrupt", "call": j})
    return faults


def random_fault(rng, oplog, user_writes):
    kind = rng.weighted(["crash_before", "crash_after", "torn", "enospc", "interrupt", "short", "interrupt_op"], [3, 3, 3, 1, 1, 1, 1])
    writes = [o for o in oplog if o[1] == "write"]
    if kind in ("torn", "enospc", "short") and not writes:
        kind = "crash_after"
    if kind == "interrupt_op":
        tail = [o for o in oplog if o[1] in ("rename", "remove", "close", "open_w", "link")] or oplog
        return {"kind": kind, "op": rng.choice(tail)[0]}
    if kind in ("crash_before", "crash_after"):
        # bias towards the rename / remove tail where the protocol state changes
        tail = [o for o in oplog if o[1] in ("rename", "remove", "close", "stat", "open_w")]
        o = rng.choice(tail) if tail and rng.bernoulli(0.6) else rng.choice(oplog)
        return {"kind": kind, "op": o[0]}
    if kind in ("torn", "enospc", "short"):
        o = rng.choice(writes)
        ln = o[3]["len"]
        n = rng.choice([0, 1, ln // 2, max(ln - 1, 0), rng.randint(0, max(ln - 1, 0))])
        n = min(n, max(ln - 1, 0)) if kind in ("torn", "short") else min(n, ln)
        return {"kind": kind, "op": o[0], "n": n}
    return {"kind": "interrupt", "call": rng.randint(0, max(user_writes - 1, 0))}


def generate_sequence(seed, index):
    """Seeded depth-2..6 scenario, generated online against the real code (the
    op index of each fault is drawn from a probe of that attempt on the directory
    the previous crash left behind) and recorded as concrete values."""
    st = Streams(run_seed(seed, PROP, index))
    k = st["knobs"]
    caller = k.choice(CALLERS)
    size = k.weighted(["small", "medium", "large"], [6, 3, 1])
    bufs = [b for (s, b) in SWEEP_CONFIGS if s == size]
    buf = k.choice(bufs)
    start = k.weighted(["g0", "empty"], [5, 1])
    depth = k.randint(2, 6)
    name = k.weighted(NAMES, [6, 1, 1, 1, 1])
    use_name(name)
    scenario = {"caller": caller, "size": size, "buffer": buf, "start": start, "attempts": [], "name": name}
    fs = SimFS(buffer_size=buf)
    simfs.activate(fs)
    try:
        refs = {}
        gen = 0
        if start == "g0":
            do_save(caller, size, 0)
            refs[0] = reference(caller, size, 0)
        f = st["fault"]
        for d in range(depth):
            gen += 1
            refs[gen] = reference(caller, size, gen)
            action = "recover" if f.bernoulli(0.3) else None
            if action:
                _recover(fs, refs)
            oplog, uw = probe_ops(fs, caller, size, gen)
            fault = None if f.bernoulli(0.15) else random_fault(f, oplog, uw)
            scenario["attempts"].append({"action": action, "fault": fault})
            fs.arm(dict(fault) if fault else None)
            try:
                do_save(caller, size, gen)
            except BaseException:  # noqa: BLE001
                pass
            fs.kill()
            fs.disarm()
            fs.dead = False
    finally:
        simfs.deactivate()
    return scenario


def sweep_scenarios(caller, size, buf, rng, name=None):
    """Depth 1, complete: every fault at every point of one write over a complete
    checkpoint, plus the same over the two directory states a crash can leave
    behind with `name` missing or with a stale sibling."""
    out = []
    use_name(name)
    fs = SimFS(buffer_size=buf)
    simfs.activate(fs)
    try:
        do_save(caller, size, 0)
        oplog, uw = probe_ops(fs, caller, size, 1)
    finally:
        simfs.deactivate()
    for fault in enumerate_faults(oplog, uw, rng):
        out.append({"caller": caller, "size": size, "buffer": buf, "start": "g0", "attempts": [{"action": None, "fault": fault}], "name": NAME})
    return out


# ----------------------------------------------------------------------------
# checkpoint writes reached through the real run loops (Optimizer.run / MCMC.run via main())
# ----------------------------------------------------------------------------
RUNLOOP_RECIPES = [
    {"kind": "toy_opt", "algorithm": "Adam", "scheduler": "StepLR", "loss": "map", "iterations": 7, "freq": 5, "param_dtype": "default"},
    {"kind": "toy_opt", "algorithm": "SGD-momentum", "scheduler": "none", "loss": "map", "iterations": 6, "freq": 2, "param_dtype": "default"},
    {"kind": "toy_opt", "algorithm": "LBFGS", "scheduler": "none", "loss": "map", "iterations": 5, "freq": 2, "param_dtype": "default"},
    {"kind": "toy_opt", "algorithm": "Adam", "scheduler": "none", "loss": "ELBO", "samples": 2, "iterations": 5, "freq": 3, "param_dtype": "default", "convergence": True},
    {"kind": "toy_opt", "algorithm": "SGD-momentum", "scheduler": "none", "loss": "map", "iterations": 6, "freq": 2, "param_dtype": "default", "checkpoint_all": True},
    {"kind": "toy_opt", "algorithm": "LBFGS", "scheduler": "none", "loss": "map", "iterations": 4, "freq": 2, "param_dtype": "default", "checkpoint_all": True},
    {"kind": "toy_mcmc", "operators": ["sliding", "scaler"], "iterations": 7, "freq": 3},
    {"kind": "toy_mcmc", "operators": ["hmc-adaptive"], "iterations": 5, "freq": 2},
]


def _runloop_setup(sc):
    """Directory with a complete checkpoint left by an earlier run, plus a fault-free probe of
    the judged run: the bytes of every checkpoint generation and the fs operations of every save."""
    from checks import c17

    recipe = sc["recipe"]
    spec, meta = c17.build_spec(recipe)
    fs = SimFS(buffer_size=sc["buffer"])
    # the earlier run always writes the plain checkpoint name (no numbered files)
    first = c17.build_spec(dict(recipe, checkpoint_all=False, iterations=recipe["freq"] if sc["resumed"] else recipe["iterations"]))[0]
    ctl0, out0 = c17.run_incarnation(fs, first, meta, "float64", sc["seed"], 0, {"kind": "none"}, EventLog(), False)
    prev = fs.durable(NAME)
    snap = fs.snapshot()
    base = ctl0.position if sc["resumed"] else 0
    ctlp, outp = c17.run_incarnation(fs, spec, meta, "float64", sc["seed"] + 1, base, {"kind": "probe"}, EventLog(), sc["resumed"])
    gens = [prev] + [c["bytes"] for c in ctlp.checkpoints]
    return spec, meta, snap, base, gens, ctlp.save_oplogs, (out0.kind, outp.kind)


def _classify_bytes(data, gens):
    if data is None:
        return ("absent", None)
    # a deterministic re-run reproduces earlier checkpoints byte for byte: identical content counts
    # as the newest generation it equals
    for g in range(len(gens) - 1, -1, -1):
        if data == gens[g]:
            return ("complete", g)
    try:
        json.loads(data.decode("utf-8"))
    except (ValueError, UnicodeDecodeError):
        return ("truncated", None)
    return ("mixture", None)


LEFTOVERS = {
    # what an earlier interrupted write may have left behind (all of them satisfy the property)
    "between_renames": {"name": None, "old": 0, "new": 0},   # died between rename(name, .old) and rename(.new, name)
    "new_left": {"name": 0, "old": None, "new": 0},          # died after .new was complete, before the rotation
    "old_left": {"name": 0, "old": 0, "new": None},          # died before remove(.old)
}


def execute_leftover(sc, log=None):
    """A run *starts* in a directory as an earlier crash left it and dies at its first step, before
    it has written anything: a complete checkpoint must still be there."""
    from checks import c17

    if log is None:
        log = EventLog()
    recipe = sc["recipe"]
    spec, meta = c17.build_spec(recipe)
    res = {"violations": [], "states": [], "stats": {"attempts": 1, "crashed": 0, "completed": 0, "fs_ops": 0, "exceptions": 0}, "fired": {}, "digest": None}
    fs = SimFS(buffer_size=sc["buffer"])
    first = c17.build_spec(dict(recipe, checkpoint_all=False, iterations=recipe["freq"]))[0]
    ctl0, out0 = c17.run_incarnation(fs, first, meta, "float64", sc["seed"], 0, {"kind": "none"}, EventLog(), False)
    prev = fs.durable(NAME)
    if out0.kind != "finished" or prev is None:
        res["excluded"] = "run loop scene does not run to completion on this tree"
        res["digest"] = log.digest()
        return res
    layout = LEFTOVERS[sc["leftover"]]
    for key, path in (("name", NAME), ("old", OLD), ("new", NEW)):
        if layout[key] is None:
            fs.files.pop(path, None)
        else:
            fs.put(path, prev)
    gens = [prev]
    before = {k: _classify_bytes(fs.durable(p), gens) for k, p in (("name", NAME), ("old", OLD), ("new", NEW))}
    resumed = layout["name"] is not None and sc.get("resumed", False)
    ctl, out = c17.run_incarnation(fs, spec, meta, "float64", sc["seed"] + 1, ctl0.position if resumed else 0, {"kind": "iter", "steps": 1}, log, resumed)
    after = {k: _classify_bytes(fs.durable(p), gens) for k, p in (("name", NAME), ("old", OLD), ("new", NEW))}
    outcome = {"crash": "crash", "exception": "exception", "finished": "completed"}[out.kind]
    res["stats"]["crashed" if outcome == "crash" else ("exceptions" if outcome == "exception" else "completed")] = 1
    res["fired"]["kill_at_first_step"] = 1
    log.add("leftover", sc["leftover"], recipe.get("algorithm") or recipe.get("operators"), outcome, _abbr(after))
    res["states"].append("start:%s|%s|%s|%s|%s" % (_kinds(before), "kill_at_first_step", "-", outcome, _kinds(after)))
    if not any(v[0] == "complete" for v in after.values()):
        v = _viol("checkpoint_lost", None, before, after, "-", "the run started in a directory holding complete checkpoint(s) (%s) left by an interrupted write, and died at its first step: "
                  "no complete checkpoint is left (%s)" % (_abbr(before), _abbr(after)))
        v["signature"]["caller"] = "run-start"
        res["violations"].append(v)
    res["digest"] = log.digest()
    return res


def execute_runloop(sc, log=None):
    from checks import c17

    if sc.get("leftover"):
        return execute_leftover(sc, log)
    if log is None:
        log = EventLog()
    spec, meta, snap, base, gens, oplogs, kinds = _runloop_setup(sc)
    res = {"violations": [], "states": [], "stats": {"attempts": 0, "crashed": 0, "completed": 0, "fs_ops": 0, "exceptions": 0}, "fired": {}, "digest": None}
    if kinds != ("finished", "finished") or gens[0] is None:
        res["excluded"] = "run loop scene does not run to completion on this tree: %s" % (kinds,)
        res["digest"] = log.digest()
        return res
    j = sc["fault"]["save"]
    fault = {k: v for k, v in sc["fault"].items() if k != "save"}
    fs = SimFS(buffer_size=sc["buffer"])
    fs.restore(snap)
    ctl, out = c17.run_incarnation(fs, spec, meta, "float64", sc["seed"] + 1, base, {"kind": "fsfault", "n": j, "fault": fault}, log, sc["resumed"])
    for k, v in fs.fired.items():
        res["fired"][k] = v
    res["stats"]["attempts"] = 1
    after = {"name": _classify_bytes(fs.durable(NAME), gens), "old": _classify_bytes(fs.durable(OLD), gens), "new": _classify_bytes(fs.durable(NEW), gens)}
    before = {"name": ("complete", j - 1), "old": ("absent", None), "new": ("absent", None)}
    outcome = {"crash": "crash", "exception": "exception", "finished": "completed"}[out.kind]
    res["stats"]["crashed" if outcome == "crash" else ("exceptions" if outcome == "exception" else "completed")] = 1
    log.add("runloop", sc["recipe"].get("algorithm") or sc["recipe"].get("operators"), j, fault, outcome, _abbr(after))
    res["states"].append("run:%s|%s|%s|%s|%s" % (_kinds(before), fault["kind"], "-", outcome, _kinds(after)))
    if outcome != "completed":
        for v in judge(before, after, j, fault, "-", j - 1):
            v["signature"]["caller"] = "run-loop"
            res["violations"].append(v)
    res["digest"] = log.digest()
    return res


def runloop_scenarios(recipe, resumed, buffer, seed, rng):
    base_sc = {"mode": "runloop", "recipe": recipe, "resumed": resumed, "buffer": buffer, "seed": seed}
    try:
        spec, meta, snap, base, gens, oplogs, kinds = _runloop_setup(base_sc)
    except Exception:  # noqa: BLE001
        return []
    out = []
    for j, (oplog, uw) in enumerate(oplogs, start=1):
        for f in enumerate_faults(oplog, uw, rng, interrupts=2):
            out.append(dict(base_sc, fault=dict(f, save=j)))
    for name in sorted(LEFTOVERS):
        out.append(dict(base_sc, leftover=name))
    return out


# ----------------------------------------------------------------------------
# minimisation
# ----------------------------------------------------------------------------
def minimise(scenario, sig):
    if scenario.get("mode") == "runloop":
        return scenario  # one scene, one fault: nothing to shrink

    def fails(sc):
        try:
            r = execute(sc)
        except Exception:  # noqa: BLE001
            return False
        return any(v["signature"] == sig for v in r["violations"])

    best = json.loads(json.dumps(scenario))
    # 1. drop attempts
    atts = ddmin(best["attempts"], lambda sub: fails(dict(best, attempts=sub)), max_tests=60)
    if fails(dict(best, attempts=atts)):
        best["attempts"] = atts
    # 2. simpler configuration
    for key, val in (("size", "small"), ("buffer", 8192), ("caller", "direct"), ("start", "g0")):
        if best[key] != val:
            cand = dict(best)
            cand[key] = val
            if fails(cand):
                best = cand
    # 3. simpler faults / no recover action
    for i in range(len(best["attempts"])):
        a = best["attempts"][i]
        cands = []
        if a.get("action"):
            cands.append(dict(a, action=None))
        f = a.get("fault")
        if f and f["kind"] in ("torn", "enospc") and f.get("n", 0) != 0:
            cands.append(dict(a, fault=dict(f, n=0)))
        if f and f["kind"] in ("torn", "enospc", "crash_after"):
            cands.append(dict(a, fault={"kind": "crash_before", "op": f["op"]}))
        for c in cands:
            trial = dict(best, attempts=best["attempts"][:i] + [c] + best["attempts"][i + 1 :])
            if fails(trial):
                best = trial
    return best


# ----------------------------------------------------------------------------
# driver interface
# ----------------------------------------------------------------------------
TIMEOUT = {"quick": 900, "thorough": 4 * 3600}
SELFTEST_N = {"quick": 8, "thorough": 48}


def plan(tier, seed, scale=1.0):
    tasks = []
    ci = 0
    for caller in CALLERS:
        for size, buf in SWEEP_CONFIGS:
            # every third configuration of the sweep uses one of the unusual checkpoint names
            name = NAMES[1 + (ci // 3) % (len(NAMES) - 1)] if ci % 3 == 2 else DEFAULT_NAME
            ci += 1
            tasks.append({"kind": "sweep", "caller": caller, "size": size, "buffer": buf, "seed": seed, "name": name})
    for ri, recipe in enumerate(RUNLOOP_RECIPES):
        for resumed in (False, True):
            for buf in ((8192,) if tier == "quick" else (7, 512, 8192)):
                tasks.append({"kind": "runloop", "recipe": recipe, "resumed": resumed, "buffer": buf, "seed": seed})
    nseq = int({"quick": 2400, "thorough": 200000}[tier] * scale)
    per = 100 if tier == "quick" else 1000
    for lo in range(0, nseq, per):
        tasks.append({"kind": "seq", "seed": seed, "lo": lo, "hi": min(nseq, lo + per)})
    return tasks


def selftest_indices(tasks, n):
    sw = [i for i, t in enumerate(tasks) if t["kind"] in ("sweep", "runloop")]
    sq = [i for i, t in enumerate(tasks) if t["kind"] == "seq"]
    return (sw[:: max(1, len(sw) // (n // 2))][: n // 2]) + sq[: n - n // 2]


def run_task(task):
    from sim import envinfo

    if task["kind"] == "replay":
        r = execute(task["scenario"])
        return {"violations": [dict(v, scenario=task["scenario"], engine=ENGINE) for v in r["violations"]], "digest": r["digest"]}
    log = EventLog()
    agg = {"violations": [], "states": {}, "stats": {}, "fired": {}, "runs": 0, "samples": []}
    if task["kind"] == "runloop":
        rng = Rng(run_seed(task["seed"], PROP, "runloop-%s-%s-%s" % (json.dumps(task["recipe"], sort_keys=True), task["resumed"], task["buffer"])))
        scenarios = runloop_scenarios(task["recipe"], task["resumed"], task["buffer"], task["seed"] & 0xFFFF, rng)
        found_by = "run-loop sweep (every fs operation of every checkpoint write of one run)"
    elif task["kind"] == "sweep":
        rng = Rng(run_seed(task["seed"], PROP, "sweep-%s-%s-%s" % (task["caller"], task["size"], task["buffer"])))
        scenarios = sweep_scenarios(task["caller"], task["size"], task["buffer"], rng, task.get("name"))
        found_by = "depth-1 sweep"
    else:
        scenarios = [generate_sequence(task["seed"], i) for i in range(task["lo"], task["hi"])]
        found_by = "seeded sequence search seed=%d indices %d..%d" % (task["seed"], task["lo"], task["hi"])
    seen = set()
    for sc in scenarios:
        r = execute(sc)
        log.add(r["digest"])
        agg["runs"] += 1
        for s in r["states"]:
            agg["states"][s] = agg["states"].get(s, 0) + 1
        for k, v in r["stats"].items():
            agg["stats"][k] = agg["stats"].get(k, 0) + v
        for k, v in r["fired"].items():
            agg["fired"][k] = agg["fired"].get(k, 0) + v
        if len(agg["samples"]) < 2 and (sc.get("mode") == "runloop" or len(sc["attempts"]) >= (1 if task["kind"] == "sweep" else 2)):
            agg["samples"].append({"scenario": sc, "states": r["states"]})
        for v in r["violations"]:
            key = json.dumps(v["signature"], sort_keys=True)
            if key in seen:
                continue
            seen.add(key)
            small = minimise(sc, v["signature"])
            rr = execute(small)
            vv = [x for x in rr["violations"] if x["signature"] == v["signature"]]
            msg = vv[0]["message"] if vv else v["message"]
            agg["violations"].append({"signature": v["signature"], "message": msg, "scenario": small if vv else sc,
                                      "engine": ENGINE, "found_by": found_by, "environment": envinfo.environment()})
    agg["digest"] = log.digest()
    return agg


def summarize(tasks, results, tier, seed):
    states = {}
    stats = {}
    fired = {}
    runs = 0
    samples = []
    sweep_runs = 0
    runloop_runs = 0
    for t, r in zip(tasks, results):
        runs += r["runs"]
        if t["kind"] == "sweep":
            sweep_runs += r["runs"]
        if t["kind"] == "runloop":
            runloop_runs += r["runs"]
        for k, v in r["states"].items():
            states[k] = states.get(k, 0) + v
        for k, v in r["stats"].items():
            stats[k] = stats.get(k, 0) + v
        for k, v in r["fired"].items():
            fired[k] = fired.get(k, 0) + v
        if len(samples) < 4 and r["samples"]:
            samples.append(r["samples"][-1])
    nontrivial = [s for s in states if "|none|" not in s]
    return {
        "evaluations": runs,
        "distinct_nontrivial": len(nontrivial),
        "rule": "one evaluation = one scenario (a directory state plus 1..6 consecutive checkpoint writes, each with at most one fault) executed against the real save_parameters over SimFS. A case is distinct by the tuple (class of name/.old/.new before the attempt in {A,C,T,M}, fault kind, kind of the last fs operation performed, outcome, class of the three names after); it is non-trivial when a fault was injected in that attempt.",
        "samples": samples,
        "exhaustive": False,
        "depth1_sweep": {"exhaustive": True, "scenarios": sweep_runs,
                         "space": "callers %s x (payload size, stdio buffer size) in %s x every fs-op boundary (before/after) x torn {0,1,len/2,len-1} x ENOSPC {0,len/2} per write syscall; interrupts in write() calls are sampled (first/last 4 + 12 seeded)" % (CALLERS, SWEEP_CONFIGS)},
        "seeded_sequences": runs - sweep_runs - runloop_runs,
        "run_loop_sweep": {"scenarios": runloop_runs, "space": "real main() runs of %d toy Optimizer/MCMC scenes (fresh and resumed) over a directory that already holds a complete checkpoint: every fs-operation boundary / torn / ENOSPC / sampled interrupt of every checkpoint write the run performs" % len(RUNLOOP_RECIPES)},
        "simulated_time": {"checkpoint_write_attempts": stats.get("attempts", 0), "fs_operations": stats.get("fs_ops", 0)},
        "faults_fired": fired,
        "outcomes": {k: stats.get(k, 0) for k in ("crashed", "completed", "exceptions")},
        "state_histogram_top": dict(sorted(states.items(), key=lambda kv: -kv[1])[:25]),
        "real_code": ["torchtree.core.parameter_utils.save_parameters", "MCMC.save_full_state / state_dict", "Optimizer.save_full_state / state_dict", "ParameterEncoder / TensorEncoder / TensorDecoder", "json.dump", "run-loop sweep: torchtree.main, Optimizer._run/_run_closure, MCMC.run"],
        "stubs": ["file system (SimFS)", "process death (SimCrash)"],
    }
