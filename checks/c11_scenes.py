"""Scenes for the C11 history engine: recipe -> (model specification, domains).

`domains` maps the id of every base Parameter that histories may update to the
set it must stay in: real | positive | unit | simplex | above:<lo>.
"""
from __future__ import annotations

import copy

from sim import fresh as freshlib
from sim import scenes

CLI_VECTORS = [
    ["--clock", "strict", "--coalescent", "constant"],
    ["--clock", "strict", "--coalescent", "exponential", "--heights", "shift"],
    ["--clock", "strict", "--coalescent", "skygrid", "--grid", "5", "--cutoff", "10", "-m", "HKY", "-C", "4"],
    ["--clock", "strict", "--coalescent", "skyride", "-m", "GTR", "-I"],
    ["--clock", "strict", "--coalescent", "skyride", "--disable_time_aware"],
    ["--clock", "strict", "--coalescent", "piecewise-constant", "--grid", "4", "--cutoff", "8"],
    ["--clock", "strict", "--coalescent", "piecewise-exponential", "--grid", "4", "--cutoff", "8"],
    ["--clock", "strict", "--coalescent", "piecewise-linear", "--grid", "4", "--cutoff", "8"],
    ["--clock", "strict", "--coalescent", "skyglide", "--grid", "4", "--cutoff", "8"],
    ["--clock", "strict", "--coalescent", "skygrid", "--grid", "5", "--cutoff", "10", "--gmrf_integrated"],
    ["--clock", "strict", "--coalescent", "skygrid", "--grid", "5", "--cutoff", "10", "--coalescent_non_centered"],
    ["--clock", "ucln", "--coalescent", "constant"],
    ["--clock", "strict", "--birth-death", "constant"],
    ["--clock", "strict", "--birth-death", "bdsk", "--grid", "3"],
    ["--clock", "strict", "--birth-death", "bdsk", "--grid", "3", "@origin_is_root_edge"],
    ["--clock", "strict", "--coalescent", "constant", "--use_tip_states"],
    ["--clock", "strict", "--coalescent", "constant", "--include_jacobian"],
    ["-m", "JC69"],
    ["-m", "HKY", "-C", "4", "-I"],
    ["-m", "GTR", "-C", "3"],
    ["-m", "K80"],
    ["-m", "SYM"],
    ["-m", "GTR", "--brlenspr", "gammadir"],
    ["-m", "SRD06"],
    ["-m", "SRD06", "-C", "4", "-I"],
    ["-m", "HKY", "--use_ambiguities"],
]


def pick(rng):
    u = rng.random()
    if u < 0.12:
        return {"name": "toy", "kind": "toy", "dim": rng.choice([1, 3])}
    if u < 0.32:
        return {"name": "kinds", "kind": "kinds", "variant": rng.randint(0, 2)}
    if u < 0.40:
        return {"name": "priors", "kind": "priors"}
    if u < 0.46:
        return {"name": "subst", "kind": "subst"}
    if u < 0.54:
        return {"name": "variational", "kind": "variational"}
    if u < 0.60:
        return {"name": "shrinkage", "kind": "shrinkage"}
    if u < 0.66:
        return {"name": "timetree", "kind": "timetree"}
    if u < 0.71:
        return {"name": "sitemodels", "kind": "sitemodels"}
    if u < 0.745:
        return {"name": "flows", "kind": "flows"}
    if u < 0.78:
        return {"name": "empirical", "kind": "empirical"}
    i = rng.randint(0, len(CLI_VECTORS) - 1)
    sub = rng.choice(["mcmc", "mcmc", "advi"])
    return {"name": "cli:%s:%s" % (sub, " ".join(CLI_VECTORS[i])), "kind": "cli", "sub": sub, "args": CLI_VECTORS[i]}


_CACHE = {}


def build(recipe):
    key = repr(sorted(recipe.items(), key=str))
    if key not in _CACHE:
        _CACHE[key] = _build(recipe)
    spec, dom = _CACHE[key]
    return copy.deepcopy(spec), dict(dom)


def _build(recipe):
    kind = recipe["kind"]
    if kind == "toy":
        spec = scenes.toy_joint(dim=recipe.get("dim", 3))
        return spec, {"x": "real", "z": "real"}
    if kind == "kinds":
        return _kinds(recipe.get("variant", 0))
    if kind == "priors":
        return _priors()
    if kind == "cli":
        return _cli(recipe)
    if kind == "subst":
        return _subst()
    if kind == "variational":
        return _variational()
    if kind == "shrinkage":
        return _shrinkage()
    if kind == "timetree":
        return _timetree()
    if kind == "sitemodels":
        return _sitemodels()
    if kind == "flows":
        return _flows()
    if kind == "empirical":
        return _empirical()
    raise ValueError(kind)


def _cli(recipe):
    sub = recipe["sub"]
    tweaks = [a for a in recipe["args"] if a.startswith("@")]
    args = [sub] + scenes.tiny_args(dated="--clock" in recipe["args"]) + [a for a in recipe["args"] if not a.startswith("@")] + ["--stem", scenes.RUN + "/x"]
    if sub != "map":
        args += ["--iter", "5"]
    full = scenes.cli(args)
    if "@origin_is_root_edge" in tweaks:
        # an option of the model class that no CLI flag sets: the origin is the branch above the root
        for d in scenes.find_type(full, "BDSKModel"):
            d["origin_is_root_edge"] = True
    spec = freshlib.model_part(full)
    if sub == "advi":
        opt = [e for e in full if e.get("type") == "Optimizer"][0]
        if isinstance(opt.get("loss"), dict):
            spec.append(copy.deepcopy(opt["loss"]))
    dic = freshlib.build(spec)
    dom = {}
    for pid, p in freshlib.base_parameters(dic).items():
        if not p.tensor.dtype.is_floating_point:
            continue
        if "unres" in pid or pid.endswith(".log") or pid.endswith(".loc") or pid.endswith(".unshifted") and False:
            dom[pid] = "real"
    return spec, dom


def _kinds(variant):
    """Every parameter kind: plain, view (slice / int / reversed), concatenated,
    transformed (plain, chained, parametric transform)."""
    P, T, D = scenes.param, scenes.transformed, scenes.dist
    a = P("a", [0.3, -0.2, 0.5, 1.1])
    b = P("b", [1.5, 0.7])
    w = P("w", [0.2, 0.3, 0.5])
    W = P("W", [[1.0, 0.5], [0.0, 2.0], [1.0, 1.0]])
    bias = P("bias", [0.1, -0.1, 0.3])
    spec = [
        a,
        b,
        {"id": "v1", "type": "ViewParameter", "parameter": "a", "indices": "0:2"},
        {"id": "v2", "type": "ViewParameter", "parameter": "a", "indices": 3},
        {"id": "v3", "type": "ViewParameter", "parameter": "a", "indices": "::-1"},
        {"id": "cat", "type": "CatParameter", "parameters": ["v1", "b"], "dim": -1},
        T("ea", "torch.distributions.ExpTransform", "a"),
        T("aff", "torch.distributions.AffineTransform", "ea", {"loc": 1.0, "scale": 2.0}),
        T("ecat", "torch.distributions.ExpTransform", "cat"),
        T("tv", "torch.distributions.SigmoidTransform", "v1"),
        T("multi", "torch.distributions.ExpTransform", [{"id": "v4", "type": "ViewParameter", "parameter": "a", "indices": "3:4"}, "b"]),
        T("ev2", "torch.distributions.ExpTransform", "v2"),
        w,
        T("cc", "torchtree.distributions.transforms.ConvexCombinationTransform", P("r", [1.0, 2.0, 0.5]), {"weights": "w"}),
        W,
        bias,
        T("lin", "torchtree.distributions.transforms.LinearTransform", P("u", [0.4, -0.6]), {"weight": "W", "bias": "bias"}),
        scenes.joint(
            "joint",
            [
                D("d.cat", "torch.distributions.Normal", "cat", {"loc": [0.0] * 4, "scale": [2.0] * 4}),
                D("d.aff", "torch.distributions.Gamma", "aff", {"concentration": [2.0] * 4, "rate": [0.5] * 4}),
                D("d.ecat", "torch.distributions.LogNormal", "ecat", {"loc": [0.0] * 4, "scale": [1.0] * 4}),
                D("d.tv", "torch.distributions.Beta", "tv", {"concentration1": [2.0, 2.0], "concentration0": [3.0, 1.0]}),
                D("d.multi", "torch.distributions.Gamma", "multi", {"concentration": [2.0] * 3, "rate": [1.0] * 3}),
                D("d.cc", "torch.distributions.Gamma", "cc", {"concentration": [2.0] * 3, "rate": [1.0] * 3}),
                D("d.lin", "torch.distributions.Normal", "lin", {"loc": [0.0] * 3, "scale": [3.0] * 3}),
                D("d.v3", "torch.distributions.Normal", "v3", {"loc": "a", "scale": "b2"} if variant == 2 else {"loc": [0.0] * 4, "scale": [1.0] * 4}),
                D("d.ev2", "torch.distributions.Exponential", "ev2", {"rate": 1.5}),
                "ea",
                "ecat",
            ],
        ),
    ]
    if variant == 2:
        spec.insert(2, P("b2", [1.0, 2.0, 1.5, 0.5]))
    dom = {"a": "real", "b": "positive", "r": "positive", "u": "real", "w": "simplex", "W": "real", "bias": "real"}
    if variant == 2:
        dom["b2"] = "positive"
    if variant == 1:
        # only plain / view / cat paths (no parametric transforms updated)
        dom.pop("w"), dom.pop("W"), dom.pop("bias")
    return spec, dom


def _priors():
    """Classes the CLI reaches only with some options, written directly so that
    their hyper-parameters are updatable parameters."""
    root = scenes.repo_root()
    cli = scenes.cli(["mcmc"] + scenes.tiny_args(dated=False) + ["-m", "GTR", "--brlenspr", "gammadir", "--stem", scenes.RUN + "/x", "--iter", "5"])
    spec = freshlib.model_part(cli)
    prior = scenes.find_type(spec, "CompoundGammaDirichletPrior")
    dom = {}
    if prior:
        pr = prior[0]
        for key, val in (("alpha", 1.0), ("c", 0.1), ("shape", 1.0), ("rate", 1.0)):
            pr[key] = scenes.param("gd." + key, [val])
            dom["gd." + key] = "positive"
    dic = freshlib.build(spec)
    for pid, p in freshlib.base_parameters(dic).items():
        if "unres" in pid:
            dom[pid] = "real"
    return spec, dom


def _subst():
    """Substitution models the CLI cannot reach with nucleotide data."""
    P = scenes.param
    spec = [
        {"id": "codon", "type": "CodonDataType", "genetic_code": "Universal"},
        {"id": "mg94", "type": "MG94", "data_type": "codon", "kappa": P("mg.kappa", [2.0]), "alpha": P("mg.alpha", [1.0]), "beta": P("mg.beta", [0.5]),
         "frequencies": P("mg.freqs", [1.0 / 61] * 61)},
        {"id": "dt4", "type": "GeneralDataType", "codes": ["A", "C", "G", "T"]},
        {"id": "gsym", "type": "GeneralSymmetricSubstitutionModel", "data_type": "dt4", "mapping": [0, 1, 0, 0, 1, 0],
         "rates": P("gs.rates", [1.0, 3.0]), "frequencies": P("gs.freqs", [0.1, 0.2, 0.3, 0.4])},
        {"id": "gnonsym", "type": "GeneralNonSymmetricSubstitutionModel", "data_type": "dt4",
         "rates": P("gn.rates", [0.5 + 0.1 * i for i in range(12)]), "frequencies": P("gn.freqs", [0.25, 0.25, 0.25, 0.25])},
    ]
    dom = {"mg.kappa": "positive", "mg.alpha": "positive", "mg.beta": "positive", "mg.freqs": "simplex", "gs.rates": "positive", "gs.freqs": "simplex",
           "gn.rates": "positive", "gn.freqs": "simplex"}
    return spec, dom


def _variational():
    """Every variational objective over one joint and one mean-field family: each
    read draws fresh samples into the latent parameters and evaluates p and q at them."""
    P, T, D = scenes.param, scenes.transformed, scenes.dist
    spec = scenes.toy_joint(dim=2)
    spec.append(scenes.joint("variational", [
        D("qx", "torch.distributions.Normal", "x", {"loc": P("qx.loc", [0.1, 0.2]), "scale": T("qx.scale", "torch.distributions.ExpTransform", P("qx.scale.unres", [-1.0, -0.5]))}),
        D("qz", "torch.distributions.Normal", "z", {"loc": P("qz.loc", [0.0, 0.2]), "scale": T("qz.scale", "torch.distributions.ExpTransform", P("qz.scale.unres", [-1.5, -1.0]))}),
    ]))
    # a second mean-field family over the same latent parameters (component of the stratified ELBO)
    spec.append(scenes.joint("variational.b", [
        D("qx.b", "torch.distributions.Normal", "x", {"loc": P("qx.b.loc", [0.4, 0.1]), "scale": T("qx.b.scale", "torch.distributions.ExpTransform", P("qx.b.scale.unres", [-0.7, -0.9]))}),
        D("qz.b", "torch.distributions.Normal", "z", {"loc": P("qz.b.loc", [0.3, -0.1]), "scale": T("qz.b.scale", "torch.distributions.ExpTransform", P("qz.b.scale.unres", [-1.2, -1.4]))}),
    ]))
    spec.append({"id": "detnormal", "type": "DeterministicNormal", "loc": P("dn.loc", [0.2, -0.3]), "scale": T("dn.scale", "torch.distributions.ExpTransform", P("dn.scale.unres", [-0.5, 0.1])),
                 "x": P("dn.x", [0.1, 0.4]), "shape": [3]})
    common = {"joint": "joint", "variational": "variational"}
    spec += [
        dict({"id": "klpq.is", "type": "KLpqImportance", "samples": 4}, **common),
        {"id": "selbo", "type": "SELBO", "samples": 3, "joint": "joint", "components": ["variational", "variational.b"], "weights": P("selbo.weights", [0.4, 0.6])},
        {"id": "selbo.multi", "type": "SELBO", "samples": [3, 2], "joint": "joint", "components": ["variational", "variational.b"], "weights": "selbo.weights"},
    ]
    spec += [
        dict({"id": "elbo", "type": "ELBO", "samples": 3}, **common),
        dict({"id": "elbo.multi", "type": "ELBO", "samples": [3, 2]}, **common),
        dict({"id": "elbo.entropy", "type": "ELBO", "samples": 2, "entropy": True}, **common),
        dict({"id": "elbo.score", "type": "ELBO", "samples": 4, "score": True}, **common),
        dict({"id": "klpq", "type": "KLpq", "samples": 4}, **common),
        dict({"id": "vr", "type": "VR", "samples": 4, "alpha": 0.5}, **common),
        dict({"id": "cubo", "type": "CUBO", "samples": 4, "n": 2.0}, **common),
    ]
    dom = {"qx.loc": "real", "qx.scale.unres": "real", "qz.loc": "real", "qz.scale.unres": "real", "qx.b.loc": "real", "qz.b.scale.unres": "real",
           "selbo.weights": "simplex", "dn.loc": "real", "dn.scale.unres": "real", "dn.x": "real"}
    return spec, dom


def _shrinkage():
    """Shrinkage / mixture / multivariate priors and the GMRF with covariates."""
    P, T, D = scenes.param, scenes.transformed, scenes.dist
    spec = [
        P("bx", [0.5, -1.0, 2.0]),
        {"id": "bridge", "type": "BayesianBridge", "x": "bx", "scale": P("b.scale", [1.5]), "alpha": P("b.alpha", [0.5])},
        {"id": "bridge2", "type": "BayesianBridge", "x": "bx", "scale": P("b2.scale", [0.7]), "alpha": P("b2.alpha", [0.25]),
         "local_scale": P("b2.local", [1.0, 2.0, 0.5]), "slab": P("b2.slab", [2.0])},
        {"id": "mixture", "type": "ScaleMixtureNormal", "x": P("mx", [0.3, -0.2]), "loc": P("m.loc", [0.1]),
         "global_scale": P("m.global", [1.2]), "local_scale": P("m.local", [0.5, 2.0]), "slab": P("m.slab", [3.0])},
        {"id": "mvn", "type": "MultivariateNormal", "x": P("vx", [0.2, 0.4, -0.1]),
         "parameters": {"loc": P("v.loc", [0.0, 0.1, 0.2]),
                        "scale_tril": T("v.tril", "torchtree.distributions.transforms.TrilExpDiagonalTransform", P("v.tril.unres", [0.1, 0.3, -0.2, 0.05, 0.2, 0.0]))}},
        {"id": "mvn2", "type": "MultivariateNormal", "x": [P("wx1", [0.2]), P("wx2", [0.4, -0.1])],
         "parameters": {"loc": P("w.loc", [0.0, 0.1, 0.2]), "covariance_matrix": P("w.cov", [[2.0, 0.1, 0.0], [0.1, 1.0, 0.2], [0.0, 0.2, 1.5]])}},
        {"id": "field", "type": "Parameter", "tensor": [0.1, 0.5, 0.2, -0.3]},
        {"id": "gmrfc", "type": "GMRFCovariate", "field": "field", "precision": P("g.precision", [2.0]),
         "covariates": [[1.0, 0.0], [1.0, 1.0], [1.0, 2.0], [1.0, 3.0]], "beta": P("g.beta", [0.1, -0.05])},
        {"id": "gmrf", "type": "GMRF", "x": "field", "precision": "g.precision"},
        scenes.joint("joint", ["bridge", "bridge2", "mixture", "mvn", "mvn2", "gmrfc", "gmrf",
                               D("ln", "torchtree.distributions.log_normal.LogNormal", T("e.field", "torch.distributions.ExpTransform", "field"), {"mean": 1.0, "scale": P("ln.scale", [0.8])})]),
    ]
    dom = {"bx": "real", "b.scale": "positive", "b.alpha": "unit", "b2.scale": "positive", "b2.alpha": "unit", "b2.local": "positive", "b2.slab": "positive",
           "mx": "real", "m.loc": "real", "m.global": "positive", "m.local": "positive", "m.slab": "positive",
           "vx": "real", "v.loc": "real", "v.tril.unres": "real", "wx1": "real", "wx2": "real", "w.loc": "real",
           "field": "real", "g.precision": "positive", "g.beta": "real", "ln.scale": "positive"}
    return spec, dom


def _timetree():
    """Time trees parameterised directly by node heights, with priors and a count likelihood."""
    from torchtree.evolution.tree_model import TimeTreeModel

    P = scenes.param
    taxa = dict(zip("ABCDE", [0.0, 0.0, 0.0, 0.0, 0.0]))
    tree = TimeTreeModel.json_factory("tree", "((((A,B),C),D),E);", [1.0, 2.5, 4.0, 6.0], taxa, internal_heights_id="heights")
    spec = [
        tree,
        {"id": "coal", "type": "ConstantCoalescentModel", "theta": P("theta", [3.0]), "tree_model": "tree"},
        {"id": "coal.int", "type": "ConstantCoalescentIntegratedModel", "alpha": 2.0, "beta": 1.5, "tree_model": "tree"},
        {"id": "expcoal", "type": "ExponentialCoalescentModel", "theta": P("theta2", [5.0]), "growth": P("growth", [0.1]), "tree_model": "tree"},
        {"id": "clock", "type": "StrictClockModel", "tree_model": "tree", "rate": P("rate", [0.01])},
        {"id": "poisson", "type": "PoissonTreeLikelihood", "tree_model": "tree", "edge_lengths": [0, 1, 0, 2, 1, 0, 1, 3], "branch_model": "clock"},
        {"id": "ctmc", "type": "CTMCScale", "x": "rate", "tree_model": "tree"},
        # time-aware GMRF (skyride smoothing weighted by the interval mid-points) on a tree given by node heights
        {"id": "gmrf.time", "type": "GMRF", "x": P("ta.field", [0.3, -0.2, 0.5, 0.1]), "precision": P("ta.precision", [1.5]), "tree_model": "tree"},
        # birth-death skyline priors with an origin of their own: absolute (above the root) and as the branch above the root
        {"id": "bdsk.abs", "type": "BDSKModel", "tree_model": "tree", "R": P("bd.R", [1.5, 0.8]), "delta": P("bd.delta", [0.5, 0.7]), "s": P("bd.s", [0.2, 0.4]),
         "rho": P("bd.rho", [0.3]), "origin": P("bd.origin", [9.0]), "times": P("bd.times", [0.0, 3.0])},
        {"id": "bdsk.edge", "type": "BDSKModel", "tree_model": "tree", "R": "bd.R", "delta": "bd.delta", "s": "bd.s", "rho": "bd.rho",
         "origin": P("bd.root_edge", [2.0]), "origin_is_root_edge": True, "times": "bd.times"},
        scenes.joint("joint", ["coal", "coal.int", "expcoal", "poisson", "ctmc", "gmrf.time", "bdsk.abs", "bdsk.edge"]),
    ]
    dom = {"heights": "ordered", "theta": "positive", "theta2": "positive", "growth": "real", "rate": "positive", "ta.field": "real", "ta.precision": "positive",
           "bd.R": "positive", "bd.delta": "positive", "bd.s": "unit", "bd.rho": "unit", "bd.root_edge": "positive"}
    return spec, dom


def _sitemodels():
    """Every among-site rate model with a relative-rate multiplier mu, standing alone."""
    P = scenes.param
    spec = [
        {"id": "sm.const", "type": "ConstantSiteModel", "mu": P("c.mu", [1.3])},
        {"id": "sm.inv", "type": "InvariantSiteModel", "invariant": P("i.p", [0.3]), "mu": P("i.mu", [0.8])},
        {"id": "sm.w", "type": "WeibullSiteModel", "categories": 4, "shape": P("w.shape", [0.7]), "mu": P("w.mu", [1.5])},
        {"id": "sm.wi", "type": "WeibullSiteModel", "categories": 3, "shape": P("wi.shape", [1.2]), "invariant": P("wi.p", [0.2]), "mu": P("wi.mu", [0.6])},
        {"id": "sm.w0", "type": "WeibullSiteModel", "categories": 2, "shape": P("w0.shape", [0.4])},
    ]
    dom = {"c.mu": "positive", "i.p": "unit", "i.mu": "positive", "w.shape": "positive", "w.mu": "positive", "wi.shape": "positive", "wi.p": "unit", "wi.mu": "positive", "w0.shape": "positive"}
    return spec, dom


def _flows():
    """A normalizing flow of planar layers (torch modules wrapped by torchtree.nn.Module, their
    weights are torchtree Parameters holding torch.nn.Parameter tensors) as the variational
    family of an ELBO over an energy-function target."""
    def planar(i):
        return {"id": "planar.%d" % i, "type": "torchtree.nn.Module", "module": "torchtree.nf.planar.PlanarTransform",
                "parameters": {"u": scenes.param("flow.u.%d" % i, [[0.1 * (i + 1), -0.05]], nn=True),
                               "w": scenes.param("flow.w.%d" % i, [[0.07, 0.02 * (i + 1)]], nn=True),
                               "b": scenes.param("flow.b.%d" % i, [0.03 * i], nn=True)}}

    spec = [
        {"id": "energy", "type": "torchtree.nf.energy_functions.EnergyFunctionModel", "x": {"id": "z", "type": "Parameter", "zeros": [6, 2]}, "function": "u_z1"},
        {"id": "elbo", "type": "ELBO", "samples": [6], "joint": "energy",
         "variational": {"id": "varmodel", "type": "torchtree.nf.flow.NormalizingFlow", "x": "z", "layers": [planar(0), planar(1), planar(2)],
                         "base": {"id": "base", "type": "torchtree.distributions.MultivariateNormal",
                                  "parameters": {"loc": scenes.param("base.loc", [0.0, 0.0]), "covariance_matrix": scenes.param("base.scale", [[1.0, 0.0], [0.0, 1.0]])},
                                  "x": scenes.param("flow.z", [0.0, 0.0])}}},
    ]
    dom = {"base.loc": "real"}
    for i in range(3):
        dom.update({"flow.u.%d" % i: "real", "flow.w.%d" % i: "real", "flow.b.%d" % i: "real"})
    return spec, dom


def _empirical():
    """Parameter-free substitution models (LG, WAG, GeneralJC69) under tree likelihoods whose other
    inputs move: amino-acid data on an unrooted tree, a discrete trait read from taxon attributes
    (AttributePattern) on a time tree given by node heights (FlexibleTimeTreeModel)."""
    from torchtree.evolution.tree_model_flexible import FlexibleTimeTreeModel

    P = scenes.param
    names = ["A", "B", "C", "D"]
    seqs = ["ARNDCQEGHI", "ARNDCQEGHL", "AKNDCEEGHI", "LRNDWQEGHI"]
    places = ["x", "y", "x", "z"]
    timetree = FlexibleTimeTreeModel.json_factory("timetree", "(((A,B),C),D);", [1.0, 2.5, 4.0], dict(zip(names, [0.0, 0.5, 0.0, 1.0])),
                                                  internal_heights_id="ft.heights", taxa_id="taxa")
    for t, place in zip(timetree["taxa"]["taxa"], places):
        t["attributes"]["place"] = place
    taxa, timetree["taxa"] = timetree["taxa"], "taxa"
    spec = [
        taxa,
        {"id": "aln", "type": "Alignment", "datatype": {"id": "aa", "type": "AminoAcidDataType"}, "taxa": "taxa",
         "sequences": [{"taxon": x, "sequence": q} for x, q in zip(names, seqs)]},
        {"id": "tree", "type": "UnRootedTreeModel", "newick": "((A:0.1,B:0.2):0.05,C:0.3,D:0.1);", "taxa": "taxa",
         "branch_lengths": P("blens", [0.1, 0.2, 0.3, 0.1, 0.05])},
        {"id": "patterns", "type": "SitePattern", "alignment": "aln"},
        {"id": "like.lg", "type": "TreeLikelihoodModel", "tree_model": "tree", "site_pattern": "patterns",
         "site_model": {"id": "sm.lg", "type": "WeibullSiteModel", "categories": 3, "shape": P("lg.shape", [0.8])},
         "substitution_model": {"id": "lg", "type": "torchtree.evolution.substitution_model.amino_acid.LG"}},
        {"id": "like.wag", "type": "TreeLikelihoodModel", "tree_model": "tree", "site_pattern": "patterns",
         "site_model": {"id": "sm.wag", "type": "InvariantSiteModel", "invariant": P("wag.pinv", [0.2])},
         "substitution_model": {"id": "wag", "type": "torchtree.evolution.substitution_model.amino_acid.WAG"}},
        timetree,
        {"id": "clock", "type": "StrictClockModel", "tree_model": "timetree", "rate": P("trait.rate", [0.3])},
        {"id": "like.trait", "type": "TreeLikelihoodModel", "tree_model": "timetree", "branch_model": "clock",
         "site_pattern": {"id": "trait", "type": "AttributePattern", "taxa": "taxa", "attribute": "place",
                          "data_type": {"id": "places", "type": "GeneralDataType", "codes": ["x", "y", "z"]}},
         "site_model": {"id": "sm.trait", "type": "ConstantSiteModel"},
         "substitution_model": {"id": "gjc", "type": "GeneralJC69", "state_count": 3}},
        {"id": "coal.flex", "type": "ConstantCoalescentModel", "theta": P("flex.theta", [3.0]), "tree_model": "timetree"},
        scenes.joint("joint", ["like.lg", "like.wag", "like.trait", "coal.flex"]),
    ]
    dom = {"blens": "positive", "lg.shape": "positive", "wag.pinv": "unit", "ft.heights": "ordered", "trait.rate": "positive", "flex.theta": "positive"}
    return spec, dom
