"""Workloads ("scenes"): torchtree JSON specifications.

Sources: the repository's own CLI (run in-process) and small hand-written
specifications for classes the CLI never emits.
"""
from __future__ import annotations

import contextlib
import copy
import io
import json
import os
import sys

from . import simfs

RUN = simfs.VROOT + "/run"


def repo_root():
    import torchtree

    return os.path.dirname(os.path.dirname(os.path.abspath(torchtree.__file__)))


_CLI_CACHE = {}


def cli(args):
    """Run torchtree-cli in-process and return the emitted specification."""
    key = json.dumps(args)
    if key in _CLI_CACHE:
        return copy.deepcopy(_CLI_CACHE[key])
    from torchtree.cli import cli as cli_mod

    old = sys.argv
    sys.argv = ["torchtree-cli"] + list(args)
    buf = io.StringIO()
    try:
        with contextlib.redirect_stdout(buf), contextlib.redirect_stderr(io.StringIO()):
            cli_mod.main()
    finally:
        sys.argv = old
    spec = json.loads(buf.getvalue())
    _CLI_CACHE[key] = spec
    return copy.deepcopy(spec)


def tiny_args(dated=True):
    root = repo_root()
    a = ["-i", root + "/data/tiny.fa", "-t", root + "/data/tiny.nwk"]
    if dated:
        a += ["--date_regex", r"_(\d+)$"]
    return a


def find(spec, id_):
    """Find the dict with the given id anywhere in a specification."""
    if isinstance(spec, dict):
        if spec.get("id") == id_:
            return spec
        for v in spec.values():
            r = find(v, id_)
            if r is not None:
                return r
    elif isinstance(spec, list):
        for v in spec:
            r = find(v, id_)
            if r is not None:
                return r
    return None


def find_type(spec, type_suffix, out=None):
    if out is None:
        out = []
    if isinstance(spec, dict):
        t = spec.get("type")
        if isinstance(t, str) and t.split(".")[-1] == type_suffix:
            out.append(spec)
        for v in spec.values():
            find_type(v, type_suffix, out)
    elif isinstance(spec, list):
        for v in spec:
            find_type(v, type_suffix, out)
    return out


# ---------------------------------------------------------------------------
# small hand-written building blocks
# ---------------------------------------------------------------------------
def param(id_, values, dtype=None, nn=False):
    d = {"id": id_, "type": "Parameter", "tensor": values}
    if dtype:
        d["dtype"] = dtype
    if nn:
        d["nn"] = True
    return d


def transformed(id_, transform, x, parameters=None):
    d = {"id": id_, "type": "TransformedParameter", "transform": transform, "x": x}
    if parameters:
        d["parameters"] = parameters
    return d


def dist(id_, distribution, x, parameters):
    return {"id": id_, "type": "Distribution", "distribution": distribution, "x": x, "parameters": parameters}


def joint(id_, distributions):
    return {"id": id_, "type": "JointDistributionModel", "distributions": distributions}


def toy_joint(dtype=None, nn=False, dim=3):
    """A smooth, cheap target over two unconstrained parameter blocks:
    x ~ Normal(loc, scale) (dim entries), y = exp(z) ~ Gamma (2 entries) with the
    log-Jacobian term, as the CLI would build it."""
    return [
        joint(
            "joint",
            [
                dist("px", "torch.distributions.Normal", param("x", [0.3 * (i + 1) for i in range(dim)], dtype, nn), {"loc": [0.5] * dim, "scale": [1.5] * dim}),
                dist(
                    "py",
                    "torch.distributions.Gamma",
                    transformed("y", "torch.distributions.ExpTransform", param("z", [0.1, -0.4], dtype, nn)),
                    {"concentration": [2.0, 3.0], "rate": [1.0, 2.0]},
                ),
                "y",
            ],
        )
    ]
