"""Reference proposal models: for each operator type, the true log Hastings
ratio log q(x|x') - log q(x'|x) written against the mathematics (numpy / math,
no torchtree code), plus a monotone scalar "boldness" of the proposal kernel.

Every function returns (hr_true or None, notes) where None means "this
transition carries no Hastings comparison" (the operator signalled failure).
"""
from __future__ import annotations

import math

import numpy as np


def _changed(s, s2):
    """List of (param id, flat index) whose value differs (bitwise) between snapshots."""
    out = []
    for k in sorted(s):
        a = s[k].detach().cpu().numpy().reshape(-1)
        b = s2[k].detach().cpu().numpy().reshape(-1)
        if a.shape != b.shape:
            out.append((k, -1))
            continue
        idx = np.nonzero(~((a == b) | (np.isnan(a) & np.isnan(b))))[0]
        for i in idx:
            out.append((k, int(i)))
    return out


class ProposalError(Exception):
    """The proposal left the support of the operator's kernel (q(x'|x) = 0)."""


def _rows(changed, s):
    """Group changed flat indices of one parameter by the index along its first dimension."""
    k = changed[0][0]
    t = s[k]
    if any(c[0] != k for c in changed):
        return None
    row_len = int(t[0].numel()) if t.dim() > 1 else 1
    rows = sorted({c[1] // row_len for c in changed})
    return k, rows, row_len


def scaler(op_params, tuning, s, s2):
    """x' = f x on one entry along the first dimension (a scalar, or a whole row of d
    entries), f uniform on [a, 1/a].  Dimension matching (x, f) -> (f x, 1/f) has Jacobian
    f^(d-2), the uniform densities cancel: log ratio = (d - 2) log f  (= -log f for d = 1)."""
    a = tuning
    ch = _changed(s, s2)
    other = [c for c in ch if c[0] not in op_params]
    if other:
        raise ProposalError("scaler changed parameters it does not own: %s" % other[:3])
    if len(ch) == 0:
        return 0.0, {"moved": 0}
    g = _rows(ch, s)
    if g is None or len(g[1]) != 1:
        raise ProposalError("scaler changed more than one entry along the first dimension: %s" % ch[:4])
    k, rows, d = g
    lo = rows[0] * d
    x = s[k].reshape(-1)[lo : lo + d].to(dtype=s[k].dtype).tolist()
    x2 = s2[k].reshape(-1)[lo : lo + d].tolist()
    fs = [b / a_ for a_, b in zip(x, x2) if a_ != 0.0]
    f = fs[0]
    if any(abs(fi - f) > 1e-9 * abs(f) for fi in fs):
        raise ProposalError("scaler did not scale the entry by one common factor: %s" % fs[:4])
    if not (a * (1 - 1e-9) <= f <= (1.0 / a) * (1 + 1e-9)):
        raise ProposalError("scale factor %r outside [a, 1/a] for a=%r" % (f, a))
    return (d - 2) * math.log(f), {"moved": d, "factor": f}


def sliding(op_params, tuning, s, s2):
    w = tuning
    allc = _changed(s, s2)
    other = [c for c in allc if c[0] not in op_params]
    if other:
        raise ProposalError("sliding window changed parameters it does not own: %s" % other[:3])
    if allc:
        g = _rows(allc, s)
        if g is None or len(g[1]) != 1:
            raise ProposalError("sliding window changed more than one entry along the first dimension: %s" % allc[:4])
        k = g[0]
        ds = [float(s2[k].reshape(-1)[i]) - float(s[k].reshape(-1)[i]) for _, i in allc]
        if any(abs(d - ds[0]) > 1e-9 * max(abs(ds[0]), 1e-300) + 1e-15 for d in ds):
            raise ProposalError("sliding window shifted the entries of a row by different amounts: %s" % ds[:4])
        if abs(ds[0]) > 0.5 * w * (1 + 1e-9) + 1e-300:
            raise ProposalError("shift %r outside the window of width %r" % (ds[0], w))
    return 0.0, {"moved": len(allc)}


def _log_dirichlet(x, alpha):
    return (
        math.lgamma(float(np.sum(alpha)))
        - float(sum(math.lgamma(float(a)) for a in alpha))
        + float(np.sum((alpha - 1.0) * np.log(x)))
    )


def dirichlet(op_params, tuning, s, s2):
    c = tuning
    other = [ch for ch in _changed(s, s2) if ch[0] not in op_params]
    if other:
        raise ProposalError("dirichlet changed parameters it does not own: %s" % other[:3])
    k = op_params[0]
    x = s[k].detach().cpu().numpy().astype(np.float64).reshape(-1)
    x2 = s2[k].detach().cpu().numpy().astype(np.float64).reshape(-1)
    if abs(float(np.sum(x2)) - 1.0) > 1e-6 or np.any(x2 < 0):
        raise ProposalError("dirichlet proposal left the simplex: %r" % (x2,))
    if np.any(x2 <= 0) or np.any(x <= 0):
        return None, {"boundary": True}
    fwd = _log_dirichlet(x2, c * x)
    bwd = _log_dirichlet(x, c * x2)
    return bwd - fwd, {}


def kinetic(p, mass):
    """0.5 p^T M^{-1} p with M^{-1} inverted here (numpy), diagonal or dense."""
    p = np.asarray(p, dtype=np.float64)
    m = np.asarray(mass, dtype=np.float64)
    if m.ndim == 1:
        return 0.5 * float(np.sum(p * p / m))
    return 0.5 * float(p @ np.linalg.solve(m, p))


def hmc(p0, p1, mass):
    return kinetic(p0, mass) - kinetic(p1, mass), {}


# ---------------------------------------------------------------------------
# GMRF block update (Knorr-Held & Rue style), numpy re-implementation
# ---------------------------------------------------------------------------
class UnstableReference(Exception):
    """The iteration the proposal is defined by left the regime in which a re-implementation
    can reproduce it (rounding differences are amplified without bound)."""


def _newton(counts, w, gamma, Q, stop=0.1, max_iter=200):
    g = np.array(gamma, dtype=np.float64)
    it = 0
    grad = np.full_like(g, np.inf)
    with np.errstate(over="ignore", invalid="ignore"):
        while np.linalg.norm(grad) > stop and it < max_iter:
            jac = Q.copy()
            jac[np.diag_indices_from(jac)] += np.exp(-g) * w
            grad = -(Q @ g) - counts + np.exp(-g) * w
            if not np.all(np.isfinite(grad)) or np.linalg.norm(grad) > 1e6 or it > 40:
                raise UnstableReference("Newton-Raphson: iteration %d, gradient norm %r" % (it, float(np.linalg.norm(grad))))
            g = g + np.linalg.solve(jac, grad)
            it += 1
    return g


def _gauss_logq(target, counts, w, start, Q, stop, max_iter):
    """log density (up to the common constant) of the Gaussian approximation
    built around the Newton-Raphson mode started at `start` with prior precision Q,
    evaluated at `target`."""
    mode = _newton(counts, w, start, Q, stop, max_iter)
    QW = Q.copy()
    d = w * np.exp(-mode)
    QW[np.diag_indices_from(QW)] += d
    b = d * (mode + 1.0) - counts
    L = np.linalg.cholesky(QW)  # raises LinAlgError if not PD
    mean = np.linalg.solve(QW, b)
    r = np.asarray(target, dtype=np.float64) - mean
    diag = np.diag(L)
    half_logdet = float(np.sum(np.log(diag[diag > 0.0000001])))
    return half_logdet - 0.5 * float(r @ (QW @ r))


def gmrf_block(gamma, gamma2, Q_old, Q_new, counts, w, stop=0.1, max_iter=200):
    """HR = log q(gamma | gamma', tau) - log q(gamma' | gamma, tau').
    The precision proposal density is symmetric in (tau, tau') and cancels."""
    try:
        fwd = _gauss_logq(gamma2, counts, w, gamma, Q_new, stop, max_iter)
        bwd = _gauss_logq(gamma, counts, w, gamma2, Q_old, stop, max_iter)
    except np.linalg.LinAlgError:
        return None, {"cholesky": "failed"}
    except UnstableReference as e:
        return None, {"gmrf_reference_unstable": str(e)}
    return bwd - fwd, {}


def precision_support(tau, tau2, A):
    """The precision proposal multiplies tau by a factor in [1/A, A]."""
    f = tau2 / tau
    return (1.0 / A) * (1 - 1e-9) <= f <= A * (1 + 1e-9)
