"""ref_pruning: Felsenstein pruning in log space (numpy float64, per-node
log-sum-exp) with closed-form JC69 / HKY transition probabilities.  Written
against the mathematics; shares no code with torchtree's likelihood kernels.
The only things taken from the model under test are the topology arrays
(post-order triples, leaf index = taxon index) of a freshly built tree model.
"""
from __future__ import annotations

import math

import numpy as np

NEG_INF = -np.inf
STATES = {"A": 0, "C": 1, "G": 2, "T": 3}


def log_p_jc69(t):
    """log P(t) [nbranch,4,4] for JC69 (one expected substitution per unit time)."""
    t = np.asarray(t, dtype=np.float64)
    e = -4.0 * t / 3.0
    with np.errstate(divide="ignore"):
        same = np.log(0.25 + 0.75 * np.exp(e))
        diff = np.log(-np.expm1(e)) + math.log(0.25)
    out = np.repeat(diff[:, None, None], 4, axis=1).repeat(4, axis=2)
    idx = np.arange(4)
    out[:, idx, idx] = same[:, None]
    return out


def log_p_hky(t, kappa, pi):
    """log P(t) for HKY85 with transition/transversion ratio kappa and frequencies
    pi (A,C,G,T), normalised to one expected substitution per unit time."""
    t = np.asarray(t, dtype=np.float64)
    pA, pC, pG, pT = [float(x) for x in pi]
    pR, pY = pA + pG, pC + pT
    beta = 1.0 / (2.0 * pR * pY + 2.0 * kappa * (pA * pG + pC * pT))
    cls = [pR, pY, pR, pY]  # class total of each state
    p = np.zeros((len(t), 4, 4))
    e1 = np.exp(-beta * t)
    for j in range(4):
        Pj = cls[j]
        e2 = np.exp(-beta * t * (1.0 + Pj * (kappa - 1.0)))
        pj = float(pi[j])
        for i in range(4):
            if i == j:
                p[:, i, j] = pj + pj * (1.0 / Pj - 1.0) * e1 + ((Pj - pj) / Pj) * e2
            elif (i % 2) == (j % 2):  # A<->G or C<->T
                p[:, i, j] = pj + pj * (1.0 / Pj - 1.0) * e1 - (pj / Pj) * e2
            else:
                p[:, i, j] = pj * (1.0 - e1)
    with np.errstate(divide="ignore"):
        return np.log(np.clip(p, 0.0, None))


def tip_log_partials(seqs):
    """[ntaxa, nsites, 4]: 0 where the observed symbol is compatible, -inf elsewhere."""
    n, L = len(seqs), len(seqs[0])
    out = np.full((n, L, 4), NEG_INF)
    for i, s in enumerate(seqs):
        for k, ch in enumerate(s):
            j = STATES.get(ch)
            if j is None:
                out[i, k, :] = 0.0
            else:
                out[i, k, j] = 0.0
    return out


def _lse(a, axis):
    m = np.max(a, axis=axis, keepdims=True)
    m = np.where(np.isfinite(m), m, 0.0)
    with np.errstate(divide="ignore", invalid="ignore"):
        return np.squeeze(m, axis=axis) + np.log(np.sum(np.exp(a - m), axis=axis))


def site_log_likelihoods(postorder, ntaxa, blens, seqs, model, kappa=None, pi=None, rooted=False):
    """Per-site log-likelihoods of an unrooted tree given as rooted binary
    post-order triples; blens has 2n-3 entries, the branch with index 2n-3 (one of
    the two root branches) has length zero.  rooted=True: blens has all 2n-2 entries."""
    t = np.asarray(blens, dtype=np.float64) if rooted else np.concatenate([np.asarray(blens, dtype=np.float64), [0.0]])
    if model == "JC69":
        logP = log_p_jc69(t)
        logpi = np.log(np.full(4, 0.25))
    else:
        logP = log_p_hky(t, float(kappa), pi)
        logpi = np.log(np.asarray(pi, dtype=np.float64))
    nn = 2 * ntaxa - 1
    L = len(seqs[0])
    part = np.full((nn, L, 4), NEG_INF)
    part[:ntaxa] = tip_log_partials(seqs)
    for node, left, right in postorder:
        # [L, i, j]: logP[i,j] + part[child][j]
        a = _lse(logP[left][None, :, :] + part[left][:, None, :], axis=2)
        b = _lse(logP[right][None, :, :] + part[right][:, None, :], axis=2)
        part[node] = a + b
    root = postorder[-1][0]
    return _lse(part[root] + logpi[None, :], axis=1)
