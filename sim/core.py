"""Engine core: seeded streams, event-log digests, violations, minimiser.

One integer decides everything: every choice made by a generator comes from a
named stream derived from (VERIF_SEED, property, run index).  Nothing here reads
a clock or the `random` module; logging never draws.
"""
from __future__ import annotations

import hashlib
import json
import math
import struct

MASK = (1 << 64) - 1
DEFAULT_SEED = 20260926


def hash64(*parts) -> int:
    """Stable 64-bit hash of a tuple of ints/strings (independent of PYTHONHASHSEED)."""
    h = hashlib.sha256()
    for p in parts:
        h.update(repr(p).encode())
        h.update(b"\x1f")
    return int.from_bytes(h.digest()[:8], "big")


class Rng:
    """SplitMix64.  Small, fast in pure Python, identical on every platform."""

    def __init__(self, seed: int):
        self.state = seed & MASK

    def next64(self) -> int:
        self.state = (self.state + 0x9E3779B97F4A7C15) & MASK
        z = self.state
        z = ((z ^ (z >> 30)) * 0xBF58476D1CE4E5B9) & MASK
        z = ((z ^ (z >> 27)) * 0x94D049BB133111EB) & MASK
        return z ^ (z >> 31)

    def random(self) -> float:
        return (self.next64() >> 11) * (1.0 / (1 << 53))

    def randint(self, lo: int, hi: int) -> int:
        """Inclusive bounds."""
        if hi < lo:
            raise ValueError("empty range")
        return lo + self.next64() % (hi - lo + 1)

    def choice(self, seq):
        return seq[self.next64() % len(seq)]

    def weighted(self, items, weights):
        tot = float(sum(weights))
        x = self.random() * tot
        acc = 0.0
        for it, w in zip(items, weights):
            acc += w
            if x < acc:
                return it
        return items[-1]

    def bernoulli(self, p: float) -> bool:
        return self.random() < p

    def uniform(self, a: float, b: float) -> float:
        return a + (b - a) * self.random()

    def loguniform(self, a: float, b: float) -> float:
        return math.exp(self.uniform(math.log(a), math.log(b)))

    def normal(self) -> float:
        u1 = max(self.random(), 1e-300)
        u2 = self.random()
        return math.sqrt(-2.0 * math.log(u1)) * math.cos(2 * math.pi * u2)

    def shuffle(self, lst):
        for i in range(len(lst) - 1, 0, -1):
            j = self.next64() % (i + 1)
            lst[i], lst[j] = lst[j], lst[i]

    def sample(self, seq, k):
        lst = list(seq)
        self.shuffle(lst)
        return lst[:k]


class Streams:
    """Named independent streams of one run seed: adding a draw to one stream
    never shifts another."""

    def __init__(self, run_seed: int):
        self.run_seed = run_seed
        self._streams = {}

    def __getitem__(self, name: str) -> Rng:
        s = self._streams.get(name)
        if s is None:
            s = self._streams[name] = Rng(hash64(self.run_seed, "stream", name))
        return s


def run_seed(verif_seed: int, prop: str, index: int) -> int:
    return hash64(verif_seed, prop, index)


class EventLog:
    """Incremental SHA-256 over every seam call / invariant evaluation of a run.
    Two executions of the same seed must produce the same digest."""

    def __init__(self, keep: bool = False):
        self._h = hashlib.sha256()
        self.count = 0
        self.keep = keep
        self.events = []

    def add(self, *items):
        self.count += 1
        s = _canon(items)
        self._h.update(s.encode())
        self._h.update(b"\n")
        if self.keep:
            self.events.append(s)

    def digest(self) -> str:
        return self._h.hexdigest()


def _canon(x) -> str:
    """Canonical text for digests: floats by bit pattern, dicts sorted."""
    if isinstance(x, float):
        return "f" + struct.pack(">d", x).hex()
    if isinstance(x, (list, tuple)):
        return "[" + ",".join(_canon(i) for i in x) + "]"
    if isinstance(x, dict):
        return "{" + ",".join(_canon(k) + ":" + _canon(x[k]) for k in sorted(x, key=str)) + "}"
    if isinstance(x, (bytes, bytearray)):
        return "b" + hashlib.sha256(bytes(x)).hexdigest()[:16]
    return repr(x)


def digest_of(x) -> str:
    return hashlib.sha256(_canon(x).encode()).hexdigest()


def tensor_digest(t) -> str:
    """Bit-exact digest of a torch tensor (dtype, shape, bytes; NaNs canonicalised)."""
    import torch

    tt = t.detach().cpu().contiguous()
    if tt.dtype.is_floating_point and tt.numel() and bool(torch.isnan(tt).any()):
        # every NaN is the same value: sign and payload bits (which a text round trip does not keep) are dropped
        tt = torch.where(torch.isnan(tt), torch.full_like(tt, float("nan")), tt)
    h = hashlib.sha256()
    h.update(str(tt.dtype).encode())
    h.update(str(tuple(tt.shape)).encode())
    if tt.numel():
        h.update(tt.numpy().tobytes())
    return h.hexdigest()[:24]


class Violation:
    """A property violation: a human message plus a structured signature that is
    compared field-by-field with known_findings.json."""

    def __init__(self, prop: str, signature: dict, message: str, detail=None):
        self.prop = prop
        self.signature = {k: str(v) for k, v in signature.items()}
        self.message = message
        self.detail = detail

    def sig_key(self) -> str:
        return json.dumps(self.signature, sort_keys=True)

    def to_json(self):
        return {
            "property": self.prop,
            "signature": self.signature,
            "message": self.message,
            "detail": self.detail,
        }

    @staticmethod
    def from_json(d):
        return Violation(d["property"], d["signature"], d["message"], d.get("detail"))


class HarnessError(Exception):
    """Something went wrong in the machinery (never reported as VIOLATION)."""


def ddmin(items, test, max_tests=400):
    """Classic delta debugging on a list.  `test(sub)` -> True when `sub` still
    fails the same way.  Returns a 1-minimal sublist (within the test budget)."""
    n = 2
    tests = 0
    items = list(items)
    while len(items) >= 2 and tests < max_tests:
        chunk = max(1, len(items) // n)
        subsets = [items[i : i + chunk] for i in range(0, len(items), chunk)]
        reduced = False
        for i in range(len(subsets)):
            comp = [x for j, s in enumerate(subsets) if j != i for x in s]
            tests += 1
            if comp and test(comp):
                items = comp
                n = max(n - 1, 2)
                reduced = True
                break
            if tests >= max_tests:
                break
        if not reduced:
            if n >= len(items):
                break
            n = min(len(items), n * 2)
    if len(items) == 1 and tests < max_tests:
        if test([]):
            return []
    return items
