"""Sharded execution of simulated runs in fresh interpreters.

Workers are subprocesses (never fork: torch's thread pools do not survive it)
started with a fixed PYTHONHASHSEED and one compute thread.  Task i goes to
worker i % n (static sharding: which worker runs which task never depends on
timing) and results are returned in task order.
"""
from __future__ import annotations

import json
import os
import subprocess
import sys
import threading
import time

from .core import HarnessError

PY = "/venv/bin/python"
HERE = os.path.dirname(os.path.abspath(__file__))
VERIF = os.path.dirname(HERE)


def worker_env(hashseed="0"):
    env = dict(os.environ)
    env.update(
        PYTHONHASHSEED=str(hashseed),
        OMP_NUM_THREADS="1",
        MKL_NUM_THREADS="1",
        OPENBLAS_NUM_THREADS="1",
        PYTHONDONTWRITEBYTECODE="1",
        TORCHTREE_VERIF="1",
        PYTHONPATH=VERIF + (os.pathsep + env["PYTHONPATH"] if env.get("PYTHONPATH") else ""),
    )
    return env


def run_tasks(engine, tasks, workers=16, timeout_s=900, hashseed="0", progress=None):
    """Run `tasks` (list of JSON-able dicts) through checks.<engine>.run_task.

    Returns a list of result dicts in task order.  Raises HarnessError on a
    worker crash or timeout (never a VIOLATION)."""
    if not tasks:
        return []
    workers = max(1, min(workers, len(tasks)))
    shards = [[] for _ in range(workers)]
    for i, t in enumerate(tasks):
        shards[i % workers].append((i, t))
    procs = []
    env = worker_env(hashseed)
    for w in range(workers):
        p = subprocess.Popen(
            [PY, "-u", os.path.join(HERE, "worker.py"), engine],
            stdin=subprocess.PIPE,
            stdout=subprocess.PIPE,
            stderr=subprocess.PIPE,
            env=env,
            cwd=VERIF,
            text=True,
        )
        procs.append(p)
    outs = [None] * workers
    errs = [None] * workers

    def feed(w):
        payload = "".join(json.dumps({"i": i, "task": t}) + "\n" for i, t in shards[w])
        try:
            outs[w], errs[w] = procs[w].communicate(payload, timeout=timeout_s)
        except subprocess.TimeoutExpired:
            procs[w].kill()
            outs[w], errs[w] = procs[w].communicate()
            errs[w] = (errs[w] or "") + "\nHARNESS-TIMEOUT after %ss" % timeout_s

    threads = [threading.Thread(target=feed, args=(w,)) for w in range(workers)]
    for t in threads:
        t.start()
    for t in threads:
        t.join()
    results = [None] * len(tasks)
    for w in range(workers):
        if "HARNESS-TIMEOUT" in (errs[w] or ""):
            raise HarnessError("HARNESS-TIMEOUT worker %d: %s" % (w, (errs[w] or "")[-2000:]))
        if procs[w].returncode != 0:
            raise HarnessError(
                "worker %d exited %s: %s" % (w, procs[w].returncode, (errs[w] or "")[-4000:])
            )
        for line in (outs[w] or "").splitlines():
            if not line.startswith("@@R "):
                continue
            rec = json.loads(line[4:])
            results[rec["i"]] = rec["result"]
    missing = [i for i, r in enumerate(results) if r is None]
    if missing:
        raise HarnessError("no result for tasks %s; stderr: %s" % (missing[:5], (errs[0] or "")[-2000:]))
    return results
