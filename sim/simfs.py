"""SimFS - the simulated disk.

An in-memory file system with user-space buffering and fault injection.  It is
installed by patching `builtins.open`, `io.open` and a handful of `os`
functions *globally* but it only claims paths below VROOT; every other path is
passed through to the real implementation, so imports etc. keep working.

Failure model = the process dies (page cache survives): a completed write
syscall is durable, bytes still sitting in a user-space buffer are lost.

fs operations (each gets a sequence number while the fs is armed):
  open_w, open_r, write (one write *syscall*, i.e. a buffer flush), close,
  rename, remove, stat

Faults (at most one terminal fault per incarnation):
  crash_before(k) / crash_after(k)  SimCrash at the boundary of fs op k
  torn(k, n)       write syscall k persists only n bytes, then SimCrash
  enospc(k, n)     write syscall k persists n bytes then raises OSError(ENOSPC);
                   every later write fails too; the exception propagates through
                   the code under test like a real one
  interrupt(j)     the j-th user-level write() call raises KeyboardInterrupt
                   (what a second SIGINT does); `with` blocks clean up
"""
from __future__ import annotations

import builtins
import errno
import io
import os
import stat as stat_mod

VROOT = "/simfs"


class SimCrash(BaseException):
    """The simulated process was killed.  Nothing may survive except durable bytes."""


class SimInterrupt(KeyboardInterrupt):
    """Simulated asynchronous exception inside a write() call."""


class Inode:
    __slots__ = ("data",)

    def __init__(self):
        self.data = bytearray()


class Snapshot(dict):
    """path -> bytes, plus the groups of names that share an inode (hard links)."""

    links = ()


class SimFile:
    """File object handed to the code under test."""

    def __init__(self, fs, path, inode, mode):
        self.fs = fs
        self.name = path
        self.mode = mode
        self._inode = inode
        self._binary = "b" in mode
        self._writable = any(c in mode for c in "wax+")
        self._readable = "r" in mode or "+" in mode
        self._buf = bytearray()
        self._pos = 0
        self._wpos = 0  # offset of the next write syscall (in-place overwrite when the file was not truncated)
        self._append = "a" in mode
        self._raw = False  # unbuffered binary file (buffering=0): one write() = one system call, may be short
        self._fd = None
        self.closed = False
        self.encoding = "utf-8"
        self.newlines = None
        self.errors = "strict"
        self.line_buffering = False

    # -- context manager -------------------------------------------------
    def __enter__(self):
        return self

    def __exit__(self, *exc):
        self.close()
        return False

    def __del__(self):
        # an abandoned file object of a dead process must not flush anything
        pass

    # -- capabilities ----------------------------------------------------
    def writable(self):
        return self._writable

    def readable(self):
        return self._readable

    def seekable(self):
        return self._readable and not self._writable

    def isatty(self):
        return False

    def fileno(self):
        if self._fd is None:
            self._fd = self.fs._new_fd(self)
        return self._fd

    # -- writing ---------------------------------------------------------
    def write(self, s):
        if self.closed:
            raise ValueError("I/O operation on closed file.")
        if not self._writable:
            raise io.UnsupportedOperation("not writable")
        self.fs._user_write(self)
        if self._raw:
            return self.fs._write_syscall(self, bytes(s))
        if self._binary:
            data = bytes(s)
        else:
            if not isinstance(s, str):
                raise TypeError("write() argument must be str, not %s" % type(s).__name__)
            data = s.encode("utf-8")
        self._buf += data
        bs = self.fs.buffer_size
        while len(self._buf) >= bs:
            chunk = bytes(self._buf[:bs])
            del self._buf[:bs]
            self.fs._write_syscall(self, chunk)
        return len(s)

    def writelines(self, lines):
        for line in lines:
            self.write(line)

    def flush(self):
        if self.closed:
            raise ValueError("I/O operation on closed file.")
        if self._writable and self._buf:
            chunk = bytes(self._buf)
            del self._buf[:]
            self.fs._write_syscall(self, chunk)

    def close(self):
        if self.closed:
            return
        try:
            if self._writable and self._buf:
                chunk = bytes(self._buf)
                del self._buf[:]
                self.fs._write_syscall(self, chunk)
        finally:
            # like CPython: the descriptor is closed even if the flush failed
            self.closed = True
            self.fs._open_files.discard(self)
        self.fs._op("close", self.name)

    # -- reading ---------------------------------------------------------
    def _content(self):
        return bytes(self._inode.data)

    def read(self, n=-1):
        if self.closed:
            raise ValueError("I/O operation on closed file.")
        if not self._readable:
            raise io.UnsupportedOperation("not readable")
        data = self._content()
        if n is None or n < 0:
            out = data[self._pos :]
            self._pos = len(data)
        else:
            out = data[self._pos : self._pos + n]
            self._pos += len(out)
        return out if self._binary else out.decode("utf-8")

    def readline(self, limit=-1):
        data = self._content()
        i = data.find(b"\n", self._pos)
        end = len(data) if i < 0 else i + 1
        out = data[self._pos : end]
        self._pos = end
        return out if self._binary else out.decode("utf-8")

    def readlines(self, hint=-1):
        out = []
        while True:
            line = self.readline()
            if not line:
                return out
            out.append(line)

    def __iter__(self):
        return self

    def __next__(self):
        line = self.readline()
        if not line:
            raise StopIteration
        return line

    def seek(self, pos, whence=0):
        if self._writable:
            raise io.UnsupportedOperation("seek on write stream not simulated")
        if whence == 0:
            self._pos = pos
        elif whence == 1:
            self._pos += pos
        else:
            self._pos = len(self._inode.data) + pos
        return self._pos

    def tell(self):
        if self._writable:
            return len(self._inode.data) + len(self._buf)
        return self._pos


class SimFS:
    def __init__(self, buffer_size=8192):
        self.files = {}  # path -> Inode   (durable state)
        self.dirs = set()
        self.buffer_size = buffer_size
        self._open_files = set()
        self.dead = False
        self.armed = False
        self.seq = 0  # fs operation counter (while armed)
        self.user_writes = 0
        self.oplog = []  # (seq, kind, path, info)
        self.fault = None  # dict or None
        self.full = False
        self.fired = {}  # fault kind -> count
        self.on_op = None  # optional callback(seq, kind, path, info) *after* op

    # ---- durable-state helpers (used by oracles, never by the code under test)
    def snapshot(self):
        snap = Snapshot((p, bytes(i.data)) for p, i in self.files.items())
        groups = {}
        for p, i in self.files.items():
            groups.setdefault(id(i), []).append(p)
        snap.links = [sorted(g) for g in groups.values() if len(g) > 1]
        return snap

    def restore(self, snap):
        self.files = {}
        for p, b in snap.items():
            ino = Inode()
            ino.data = bytearray(b)
            self.files[p] = ino
        for group in getattr(snap, "links", []):  # names that are hard links to one inode
            for p in group[1:]:
                self.files[p] = self.files[group[0]]
        self._open_files = set()
        self.dead = False
        self.full = False
        self.fault = None

    def durable(self, path):
        ino = self.files.get(path)
        return None if ino is None else bytes(ino.data)

    def put(self, path, data: bytes):
        ino = Inode()
        ino.data = bytearray(data)
        self.files[path] = ino

    def listdir(self):
        return sorted(self.files)

    # ---- incarnation control
    def arm(self, fault=None):
        """Start counting fs operations for a new incarnation."""
        self.armed = True
        self.seq = 0
        self.user_writes = 0
        self.oplog = []
        self.fault = fault
        self.dead = False
        self.full = False

    def disarm(self):
        self.armed = False
        self.fault = None

    def kill(self):
        """Process death: user-space buffers vanish, durable bytes stay."""
        self.dead = True
        for f in list(self._open_files):
            f._buf = bytearray()
            f.closed = True
        self._open_files = set()
        self._fds = {}
        self._next_fd = self.FD_BASE

    def _fire(self, kind):
        self.fired[kind] = self.fired.get(kind, 0) + 1

    def _crash(self, kind):
        self._fire(kind)
        self.kill()
        raise SimCrash(kind)

    # ---- operation bookkeeping
    def _begin_op(self, kind, path):
        if self.dead:
            raise SimCrash("dead")
        if not self.armed:
            return None
        k = self.seq
        f = self.fault
        if f is not None and f.get("op") == k and f["kind"] == "crash_before":
            self._crash("crash_before")
        if f is not None and f.get("op") == k and f["kind"] == "interrupt_op":
            # a signal (Ctrl-C) delivered just before this operation: KeyboardInterrupt is raised in the
            # code under test at this point, its handlers and `finally` blocks run, the process goes on or exits
            self._fire("interrupt_op")
            self.fault = None
            raise SimInterrupt("simulated interrupt before fs operation %d (%s)" % (k, kind))
        return k

    def _end_op(self, k, kind, path, info=None):
        if not self.armed:
            return
        self.oplog.append((k, kind, path, info))
        self.seq = k + 1
        if self.on_op is not None:
            self.on_op(k, kind, path, info)
        f = self.fault
        if f is not None and f.get("op") == k and f["kind"] == "crash_after":
            self._crash("crash_after")

    def _op(self, kind, path, info=None):
        k = self._begin_op(kind, path)
        self._end_op(k, kind, path, info)

    def _user_write(self, fobj):
        if self.dead:
            raise SimCrash("dead")
        if not self.armed:
            return
        j = self.user_writes
        self.user_writes += 1
        f = self.fault
        if f is not None and f["kind"] == "interrupt" and f.get("call") == j:
            self._fire("interrupt")
            self.fault = None
            raise SimInterrupt("simulated interrupt in write() call %d" % j)

    def _write_syscall(self, fobj, chunk: bytes):
        k = self._begin_op("write", fobj.name)
        f = self.fault if self.armed else None
        if self.full:
            self._end_op(k, "write", fobj.name, {"len": len(chunk), "persisted": 0, "err": "ENOSPC"})
            raise OSError(errno.ENOSPC, "No space left on device (simulated)")
        if f is not None and f.get("op") == k and f["kind"] == "torn":
            n = max(0, min(int(f["n"]), len(chunk)))
            self._persist(fobj, chunk[:n])
            self.oplog.append((k, "write", fobj.name, {"len": len(chunk), "persisted": n, "torn": True}))
            self.seq = k + 1
            self._crash("torn")
        if f is not None and f.get("op") == k and f["kind"] == "enospc":
            n = max(0, min(int(f["n"]), len(chunk)))
            self._persist(fobj, chunk[:n])
            self.full = True
            self._fire("enospc")
            self._end_op(k, "write", fobj.name, {"len": len(chunk), "persisted": n, "err": "ENOSPC"})
            raise OSError(errno.ENOSPC, "No space left on device (simulated)")
        if f is not None and f.get("op") == k and f["kind"] == "short":
            # the kernel takes only part of the buffer and reports the count, no error: a raw file hands
            # the count to its caller, a buffered file writes the remainder with another system call
            n = max(0, min(int(f["n"]), len(chunk)))
            self._persist(fobj, chunk[:n])
            self._fire("short")
            self.fault = None
            self._end_op(k, "write", fobj.name, {"len": len(chunk), "persisted": n, "short": True, "raw": fobj._raw})
            if fobj._raw or n == len(chunk):
                return n
            return n + self._write_syscall(fobj, chunk[n:])
        self._persist(fobj, chunk)
        self._end_op(k, "write", fobj.name, {"len": len(chunk), "persisted": len(chunk), "raw": fobj._raw})
        return len(chunk)

    @staticmethod
    def _persist(fobj, data: bytes):
        ino = fobj._inode
        if fobj._append:
            fobj._wpos = len(ino.data)
        end = fobj._wpos + len(data)
        if fobj._wpos > len(ino.data):
            ino.data += bytes(fobj._wpos - len(ino.data))
        ino.data[fobj._wpos : end] = data
        fobj._wpos = end

    # ---- file descriptors (os.open / os.fdopen / os.fsync / os.close / os.write)
    FD_BASE = 1 << 20

    def _new_fd(self, obj):
        if not hasattr(self, "_fds"):
            self._fds = {}
            self._next_fd = self.FD_BASE
        fd = self._next_fd
        self._next_fd += 1
        self._fds[fd] = obj
        return fd

    def is_fd(self, fd):
        return isinstance(fd, int) and fd >= self.FD_BASE and fd in getattr(self, "_fds", {})

    def os_open(self, path, flags, mode=0o777):
        path = os.fspath(path)
        d = path.rstrip("/")
        is_dir = d == VROOT or d in self.dirs or any(p.startswith(d + "/") for p in self.files)
        if is_dir and path not in self.files:
            k = self._begin_op("open_dir", path)
            self._end_op(k, "open_dir", path)
            return self._new_fd(("dir", path))
        acc = flags & (os.O_WRONLY | os.O_RDWR)
        exists = path in self.files
        if (flags & os.O_CREAT) and (flags & os.O_EXCL) and exists:
            raise FileExistsError(errno.EEXIST, "File exists", path)
        if not exists and not (flags & os.O_CREAT):
            k = self._begin_op("open_r", path)
            self._end_op(k, "open_r", path, {"err": "ENOENT"})
            raise FileNotFoundError(errno.ENOENT, "No such file or directory", path)
        kind = "open_r" if not acc else ("open_w" if flags & os.O_TRUNC else "open_rw")
        k = self._begin_op(kind, path)
        ino = self.files.get(path)
        if ino is None:
            ino = self.files[path] = Inode()
        elif flags & os.O_TRUNC and acc:
            del ino.data[:]
        m = "rb" if not acc else ("ab" if flags & os.O_APPEND else "r+b")
        fobj = SimFile(self, path, ino, m)
        fobj._writable = bool(acc)
        fobj._readable = not (flags & os.O_WRONLY)
        fobj._append = bool(flags & os.O_APPEND)
        if acc:
            self._open_files.add(fobj)
        fd = self._new_fd(fobj)
        fobj._fd = fd
        self._end_op(k, kind, path, {"flags": int(flags)})
        return fd

    def os_fdopen(self, fd, mode="r", *args, **kwargs):
        obj = self._fds[fd]
        if isinstance(obj, tuple):
            raise IsADirectoryError(errno.EISDIR, "Is a directory", obj[1])
        obj._binary = "b" in mode
        obj.mode = mode
        return obj

    def os_fsync(self, fd):
        obj = self._fds.get(fd) if isinstance(fd, int) else fd
        name = obj[1] if isinstance(obj, tuple) else getattr(obj, "name", "?")
        self._op("fsync", name)

    def os_close(self, fd):
        obj = self._fds.pop(fd)
        if not isinstance(obj, tuple):
            obj.close()

    def os_write(self, fd, data):
        obj = self._fds[fd]
        self._user_write(obj)
        return self._raw_syscall(obj, bytes(data))

    def _raw_syscall(self, obj, data):
        """write(2) / sendfile(2) on a descriptor: the count is the caller's business."""
        was = obj._raw
        obj._raw = True
        try:
            return self._write_syscall(obj, data)
        finally:
            obj._raw = was

    # ---- API seen by the code under test
    def open(self, path, mode="r", *args, **kwargs):
        path = os.fspath(path)
        m = mode.replace("t", "")
        buffering = args[0] if args else kwargs.get("buffering", -1)
        raw = buffering == 0 and "b" in m
        if "x" in m and path in self.files:
            raise FileExistsError(errno.EEXIST, "File exists", path)
        if "w" in m or "x" in m:
            k = self._begin_op("open_w", path)
            ino = self.files.get(path)
            if ino is None:
                ino = self.files[path] = Inode()
            else:
                del ino.data[:]
            fobj = SimFile(self, path, ino, m)
            fobj._raw = raw
            self._open_files.add(fobj)
            self._end_op(k, "open_w", path)
            return fobj
        if "a" in m:
            k = self._begin_op("open_a", path)
            ino = self.files.get(path)
            if ino is None:
                ino = self.files[path] = Inode()
            fobj = SimFile(self, path, ino, m)
            fobj._raw = raw
            self._open_files.add(fobj)
            self._end_op(k, "open_a", path)
            return fobj
        k = self._begin_op("open_r", path)
        ino = self.files.get(path)
        if ino is None:
            self._end_op(k, "open_r", path, {"err": "ENOENT"})
            raise FileNotFoundError(errno.ENOENT, "No such file or directory", path)
        fobj = SimFile(self, path, ino, m)
        self._end_op(k, "open_r", path)
        return fobj

    def rename(self, src, dst):
        src, dst = os.fspath(src), os.fspath(dst)
        k = self._begin_op("rename", src)
        if src not in self.files:
            self._end_op(k, "rename", src, {"dst": dst, "err": "ENOENT"})
            raise FileNotFoundError(errno.ENOENT, "No such file or directory", src)
        self.files[dst] = self.files.pop(src)
        for f in self._open_files:
            if f.name == src:
                pass  # an open descriptor keeps pointing at the inode
        self._end_op(k, "rename", src, {"dst": dst})

    def link(self, src, dst):
        """Hard link: a second name for the same inode."""
        src, dst = os.fspath(src), os.fspath(dst)
        k = self._begin_op("link", src)
        if src not in self.files:
            self._end_op(k, "link", src, {"dst": dst, "err": "ENOENT"})
            raise FileNotFoundError(errno.ENOENT, "No such file or directory", src)
        if dst in self.files:
            self._end_op(k, "link", src, {"dst": dst, "err": "EEXIST"})
            raise FileExistsError(errno.EEXIST, "File exists", dst)
        self.files[dst] = self.files[src]
        self._end_op(k, "link", src, {"dst": dst})

    def os_sendfile(self, out_fd, in_fd, offset, count):
        """os.sendfile between two virtual descriptors: one write system call on the target."""
        src, dst = self._fds[in_fd], self._fds[out_fd]
        data = bytes(src._inode.data[offset : offset + count]) if offset is not None else src.read(count)
        if not data:
            return 0
        self._user_write(dst)
        return self._raw_syscall(dst, data)

    def os_fstat(self, fd):
        obj = self._fds[fd]
        if isinstance(obj, tuple):
            return os.stat_result((stat_mod.S_IFDIR | 0o755, 0, 0, 1, 0, 0, 0, 0, 0, 0))
        return os.stat_result((stat_mod.S_IFREG | 0o644, id(obj._inode) & 0xFFFFFF, 0, 1, 0, 0, len(obj._inode.data), 0, 0, 0))

    def remove(self, path):
        path = os.fspath(path)
        k = self._begin_op("remove", path)
        if path not in self.files:
            self._end_op(k, "remove", path, {"err": "ENOENT"})
            raise FileNotFoundError(errno.ENOENT, "No such file or directory", path)
        del self.files[path]
        self._end_op(k, "remove", path)

    def stat(self, path):
        path = os.fspath(path)
        k = self._begin_op("stat", path)
        ino = self.files.get(path)
        self._end_op(k, "stat", path, {"exists": ino is not None})
        if ino is None:
            d = path.rstrip("/")
            if d == VROOT or d in self.dirs or any(p.startswith(d + "/") for p in self.files):
                return os.stat_result((stat_mod.S_IFDIR | 0o755, 0, 0, 1, 0, 0, 0, 0, 0, 0))
            raise FileNotFoundError(errno.ENOENT, "No such file or directory", path)
        return os.stat_result((stat_mod.S_IFREG | 0o644, id(ino) & 0xFFFFFF, 0, 1, 0, 0, len(ino.data), 0, 0, 0))


# ----------------------------------------------------------------------------
# global installation
# ----------------------------------------------------------------------------
_REAL = {}
_ACTIVE = [None]


def _is_virtual(path):
    try:
        p = os.fspath(path)
    except TypeError:
        return False
    if isinstance(p, bytes):
        return False
    return p == VROOT or p.startswith(VROOT + "/")


def _install_patches():
    if _REAL:
        return
    _REAL["open"] = builtins.open
    _REAL["io_open"] = io.open
    _REAL["open_os"] = os.open
    for name in ("rename", "replace", "remove", "unlink", "stat", "lstat", "fsync", "makedirs", "mkdir", "fdopen", "close", "write", "fdatasync", "link", "sendfile", "fstat"):
        _REAL[name] = getattr(os, name)

    def sim_link(src, dst, *a, **k):
        fs = _ACTIVE[0]
        if fs is not None and _is_virtual(src):
            return fs.link(src, dst)
        return _REAL["link"](src, dst, *a, **k)

    def sim_sendfile(out_fd, in_fd, offset, count, *a, **k):
        fs = _ACTIVE[0]
        if fs is not None and fs.is_fd(out_fd) and fs.is_fd(in_fd):
            return fs.os_sendfile(out_fd, in_fd, offset, count)
        return _REAL["sendfile"](out_fd, in_fd, offset, count, *a, **k)

    def sim_fstat(fd):
        fs = _ACTIVE[0]
        if fs is not None and fs.is_fd(fd):
            return fs.os_fstat(fd)
        return _REAL["fstat"](fd)

    def sim_open(file, mode="r", *args, **kwargs):
        fs = _ACTIVE[0]
        if fs is not None and isinstance(file, int) and fs.is_fd(file):
            return fs.os_fdopen(file, mode)
        if fs is not None and _is_virtual(file):
            return fs.open(file, mode, *args, **kwargs)
        return _REAL["open"](file, mode, *args, **kwargs)

    def sim_rename(src, dst, *a, **k):
        fs = _ACTIVE[0]
        if fs is not None and _is_virtual(src):
            return fs.rename(src, dst)
        return _REAL["rename"](src, dst, *a, **k)

    def sim_replace(src, dst, *a, **k):
        fs = _ACTIVE[0]
        if fs is not None and _is_virtual(src):
            return fs.rename(src, dst)
        return _REAL["replace"](src, dst, *a, **k)

    def sim_remove(path, *a, **k):
        fs = _ACTIVE[0]
        if fs is not None and _is_virtual(path):
            return fs.remove(path)
        return _REAL["remove"](path, *a, **k)

    def sim_unlink(path, *a, **k):
        fs = _ACTIVE[0]
        if fs is not None and _is_virtual(path):
            return fs.remove(path)
        return _REAL["unlink"](path, *a, **k)

    def sim_stat(path, *a, **k):
        fs = _ACTIVE[0]
        if fs is not None and _is_virtual(path):
            return fs.stat(path)
        return _REAL["stat"](path, *a, **k)

    def sim_lstat(path, *a, **k):
        fs = _ACTIVE[0]
        if fs is not None and _is_virtual(path):
            return fs.stat(path)
        return _REAL["lstat"](path, *a, **k)

    def sim_fsync(fd):
        fs = _ACTIVE[0]
        if isinstance(fd, SimFile):
            return fs.os_fsync(fd) if fs is not None else None
        if fs is not None and fs.is_fd(fd):
            return fs.os_fsync(fd)
        return _REAL["fsync"](fd)

    def sim_fdatasync(fd):
        fs = _ACTIVE[0]
        if fs is not None and (isinstance(fd, SimFile) or fs.is_fd(fd)):
            return fs.os_fsync(fd)
        return _REAL["fdatasync"](fd)

    def sim_os_open(path, flags, mode=0o777, *a, **k):
        fs = _ACTIVE[0]
        if fs is not None and _is_virtual(path):
            return fs.os_open(path, flags, mode)
        return _REAL["open_os"](path, flags, mode, *a, **k)

    def sim_fdopen(fd, *a, **k):
        fs = _ACTIVE[0]
        if fs is not None and fs.is_fd(fd):
            return fs.os_fdopen(fd, *a, **k)
        return _REAL["fdopen"](fd, *a, **k)

    def sim_close(fd):
        fs = _ACTIVE[0]
        if fs is not None and fs.is_fd(fd):
            return fs.os_close(fd)
        return _REAL["close"](fd)

    def sim_write(fd, data):
        fs = _ACTIVE[0]
        if fs is not None and fs.is_fd(fd):
            return fs.os_write(fd, data)
        return _REAL["write"](fd, data)

    def sim_makedirs(name, *a, **k):
        if _ACTIVE[0] is not None and _is_virtual(name):
            return None
        return _REAL["makedirs"](name, *a, **k)

    def sim_mkdir(name, *a, **k):
        if _ACTIVE[0] is not None and _is_virtual(name):
            return None
        return _REAL["mkdir"](name, *a, **k)

    builtins.open = sim_open
    io.open = sim_open
    os.rename = sim_rename
    os.replace = sim_replace
    os.remove = sim_remove
    os.unlink = sim_unlink
    os.stat = sim_stat
    os.lstat = sim_lstat
    os.fsync = sim_fsync
    os.fdatasync = sim_fdatasync
    os.open = sim_os_open
    os.fdopen = sim_fdopen
    os.close = sim_close
    os.write = sim_write
    os.makedirs = sim_makedirs
    os.mkdir = sim_mkdir
    os.link = sim_link
    os.sendfile = sim_sendfile
    os.fstat = sim_fstat


def activate(fs: SimFS):
    """Route all VROOT paths of this process to `fs`."""
    _install_patches()
    _ACTIVE[0] = fs


def deactivate():
    _ACTIVE[0] = None


def real_open(*a, **k):
    return _REAL.get("open", builtins.open)(*a, **k)
