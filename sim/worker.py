"""Worker process: reads {"i":..,"task":..} JSON lines on stdin, runs
checks.<engine>.run_task(task), writes '@@R {"i":..,"result":..}' lines.

An exception escaping run_task is a *harness* error for that task and is
reported as {"harness_error": traceback}; it is never turned into a violation.
"""
import faulthandler
import io
import json
import os
import sys
import traceback

HERE = os.path.dirname(os.path.abspath(__file__))
VERIF = os.path.dirname(HERE)
if VERIF not in sys.path:
    sys.path.insert(0, VERIF)
if os.environ.get("VERIF_REPO"):
    sys.path.insert(0, os.environ["VERIF_REPO"])


def _classify_exception(mod, task, exc):
    """An exception that escapes an engine is a harness error, unless it was raised by the code
    under test (innermost frame inside the torchtree package): then the run died inside
    torchtree in a place no oracle wraps, which no run on the unchanged tree does, and it is
    reported as a violation whose replay re-runs the whole task."""
    tb = traceback.format_exc()
    frames = traceback.extract_tb(exc.__traceback__)
    # frames of the code under test that sit below the last harness frame (the exception may
    # surface inside torch, called by torchtree)
    last_harness = max([i for i, f in enumerate(frames) if "/verif/" in f.filename] or [-1])
    sut = [f for f in frames[last_harness + 1 :] if "/torchtree/" in f.filename.replace("\\", "/") and "/verif/" not in f.filename and "/site-packages/" not in f.filename]
    inner = sut[-1] if sut else None
    if inner is None or type(exc).__name__ in ("SimCrash", "KeyboardInterrupt", "MemoryError"):
        return {"harness_error": tb[-6000:]}
    where = "%s:%s" % (inner.filename.split("/torchtree/")[-1], inner.name)
    sig = {"engine": getattr(mod, "ENGINE", "?"), "oracle": "exception_in_code_under_test", "exception": type(exc).__name__, "where": where}
    return {"sut_exception": True, "digest": "exception",
            "violations": [{"signature": sig, "message": "the code under test raised %s in %s while the simulator was driving it:\n%s" % (type(exc).__name__, where, tb[-1500:]),
                            "scenario": {"whole_task": task}, "engine": getattr(mod, "ENGINE", "?"), "found_by": "task %s" % json.dumps(task)[:200]}]}


def main():
    engine = sys.argv[1]
    faulthandler.enable()
    real_out = sys.stdout
    sys.stdout = io.StringIO()  # anything the code under test prints is dropped
    import importlib

    mod = importlib.import_module("checks." + engine)
    if hasattr(mod, "worker_init"):
        mod.worker_init()
    for line in sys.stdin:
        line = line.strip()
        if not line:
            continue
        rec = json.loads(line)
        sys.stdout = io.StringIO()
        task = rec["task"]
        rerun = task.get("kind") == "replay" and isinstance(task.get("scenario"), dict) and "whole_task" in task["scenario"]
        try:
            res = mod.run_task(task["scenario"]["whole_task"] if rerun else task)
            if rerun:
                res = {"violations": [], "digest": res.get("digest")}  # the recorded exception did not occur
        except BaseException as e:  # noqa: BLE001
            res = _classify_exception(mod, task["scenario"]["whole_task"] if rerun else task, e)
        real_out.write("@@R " + json.dumps({"i": rec["i"], "result": res}) + "\n")
        real_out.flush()


if __name__ == "__main__":
    main()
