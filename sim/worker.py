"""Worker process: reads {"i":..,"task":..} JSON lines on stdin, runs
checks.<engine>.run_task(task), writes '@@R {"i":..,"result":..}' lines.

An exception escaping run_task is a *harness* error for that task and is
reported as {"harness_error": traceback}; it is never turned into a violation.
"""
import faulthandler
import io
import json
import os
import sys
import traceback

HERE = os.path.dirname(os.path.abspath(__file__))
VERIF = os.path.dirname(HERE)
if VERIF not in sys.path:
    sys.path.insert(0, VERIF)
if os.environ.get("VERIF_REPO"):
    sys.path.insert(0, os.environ["VERIF_REPO"])


def main():
    engine = sys.argv[1]
    faulthandler.enable()
    real_out = sys.stdout
    sys.stdout = io.StringIO()  # anything the code under test prints is dropped
    import importlib

    mod = importlib.import_module("checks." + engine)
    if hasattr(mod, "worker_init"):
        mod.worker_init()
    for line in sys.stdin:
        line = line.strip()
        if not line:
            continue
        rec = json.loads(line)
        sys.stdout = io.StringIO()
        try:
            res = mod.run_task(rec["task"])
        except BaseException:  # noqa: BLE001 - includes SimCrash leaking = harness bug
            res = {"harness_error": traceback.format_exc()[-6000:]}
        real_out.write("@@R " + json.dumps({"i": rec["i"], "result": res}) + "\n")
        real_out.flush()


if __name__ == "__main__":
    main()
