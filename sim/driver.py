"""Common CLI driver of every check.

  ./check <ID> [--tier quick|thorough] [--workers N] [--runs N]
  ./check <ID> --replay FILE

exit 0  nothing unlisted violated
exit 1  at least one 'VIOLATION property=<id> replay=<path>' line
exit 2  harness problem (HARNESS-ERROR / HARNESS-TIMEOUT / determinism self-test)
"""
from __future__ import annotations

import argparse
import hashlib
import json
import os
import sys
import time

from . import pool
from .core import DEFAULT_SEED, HarnessError

VERIF = pool.VERIF
KNOWN_FILE = os.path.join(VERIF, "known_findings.json")
REPLAY_DIR = os.path.join(VERIF, "replays")
EVIDENCE_DIR = os.path.join(VERIF, "evidence")


def load_known(prop):
    if not os.path.exists(KNOWN_FILE):
        return []
    with open(KNOWN_FILE) as fp:
        data = json.load(fp)
    return [e for e in data.get("findings", []) if e.get("property") == prop and e.get("status") == "known"]


def match_known(sig, known):
    for e in known:
        esig = e.get("signature", {})
        if esig and all(str(sig.get(k)) == str(v) for k, v in esig.items()):
            return e
    return None


def write_replay(prop, viol):
    os.makedirs(REPLAY_DIR, exist_ok=True)
    body = {
        "property": prop,
        "engine": viol.get("engine"),
        "signature": viol["signature"],
        "message": viol["message"],
        "scenario": viol["scenario"],
        "found_by": viol.get("found_by"),
        "environment": viol.get("environment"),
    }
    txt = json.dumps(body, indent=1, sort_keys=True)
    h = hashlib.sha256(json.dumps([viol["signature"], viol["scenario"]], sort_keys=True).encode()).hexdigest()[:12]
    path = os.path.join(REPLAY_DIR, "%s-%s.json" % (prop, h))
    with open(path, "w") as fp:
        fp.write(txt + "\n")
    return path


def _git_dirty_note():
    return None


def main(mod, argv=None):
    ap = argparse.ArgumentParser(prog="check " + mod.PROP)
    ap.add_argument("--tier", default=os.environ.get("VERIF_TIER", "quick"), choices=["quick", "thorough"])
    ap.add_argument("--replay", default=None)
    ap.add_argument("--workers", type=int, default=int(os.environ.get("VERIF_WORKERS", "16")))
    ap.add_argument("--scale", type=float, default=float(os.environ.get("VERIF_SCALE", "1.0")),
                    help="multiply the number of seeded runs (exploration depth)")
    ap.add_argument("--no-selftest", action="store_true")
    ap.add_argument("--no-evidence", action="store_true")
    args = ap.parse_args(argv)
    seed = int(os.environ.get("VERIF_SEED", DEFAULT_SEED))
    t0 = time.time()
    try:
        if args.replay:
            return _replay(mod, args.replay)
        return _run(mod, args, seed, t0)
    except HarnessError as e:
        print("HARNESS-ERROR property=%s %s" % (mod.PROP, str(e)[:6000]))
        return 2


def _replay(mod, path):
    with open(path) as fp:
        body = json.load(fp)
    res = pool.run_tasks(mod.ENGINE, [{"kind": "replay", "scenario": body["scenario"]}], workers=1, timeout_s=1800)[0]
    if "harness_error" in res:
        raise HarnessError(res["harness_error"])
    want = body.get("signature")
    got = [v for v in res.get("violations", [])]
    for v in got:
        print("replayed violation: %s  %s" % (json.dumps(v["signature"], sort_keys=True), v["message"][:400]))
    same = [v for v in got if v["signature"] == want]
    if same:
        print("VIOLATION property=%s replay=%s" % (mod.PROP, os.path.abspath(path)))
        return 1
    if got:
        print("replay produced a different violation than recorded (recorded: %s)" % json.dumps(want, sort_keys=True))
        print("VIOLATION property=%s replay=%s" % (mod.PROP, os.path.abspath(path)))
        return 1
    print("replay: no violation (recorded signature %s does not reproduce on this tree)" % json.dumps(want, sort_keys=True))
    return 0


def _run(mod, args, seed, t0):
    tier = args.tier
    tasks = mod.plan(tier, seed, args.scale)
    timeout = getattr(mod, "TIMEOUT", {"quick": 1500, "thorough": 6 * 3600})[tier]
    results = pool.run_tasks(mod.ENGINE, tasks, workers=args.workers, timeout_s=timeout)
    herr = [(i, r["harness_error"]) for i, r in enumerate(results) if "harness_error" in r]
    if herr:
        raise HarnessError("task %d (%s): %s" % (herr[0][0], json.dumps(tasks[herr[0][0]])[:300], herr[0][1]))

    # ---- determinism self-test: re-run a sample in a different process layout,
    # under another PYTHONHASHSEED, and compare event-log digests.
    selftest = {"checked": 0, "mismatches": 0}
    if not args.no_selftest:
        n = getattr(mod, "SELFTEST_N", {"quick": 8, "thorough": 64})[tier]
        idx = mod.selftest_indices(tasks, n) if hasattr(mod, "selftest_indices") else list(range(min(n, len(tasks))))
        sub = [tasks[i] for i in idx]
        again = pool.run_tasks(mod.ENGINE, sub, workers=max(1, min(3, len(sub))), timeout_s=timeout, hashseed="4242")
        for i, r in zip(idx, again):
            if "harness_error" in r:
                raise HarnessError("selftest task %d: %s" % (i, r["harness_error"]))
            selftest["checked"] += 1
            if r.get("digest") != results[i].get("digest"):
                selftest["mismatches"] += 1
                print("HARNESS-ERROR determinism: task %d digests differ %s vs %s" % (i, results[i].get("digest"), r.get("digest")))
        if selftest["mismatches"]:
            raise HarnessError("determinism self-test failed (%d of %d)" % (selftest["mismatches"], selftest["checked"]))

    # ---- violations
    known = load_known(mod.PROP)
    by_sig = {}
    for r in results:
        for v in r.get("violations", []):
            key = json.dumps(v["signature"], sort_keys=True)
            cur = by_sig.get(key)
            if cur is None or len(json.dumps(v["scenario"])) < len(json.dumps(cur["scenario"])):
                by_sig[key] = v
    n_viol = 0
    known_hits = {}
    lines = []
    unknown = []
    for key in sorted(by_sig):
        v = by_sig[key]
        e = match_known(v["signature"], known)
        if e is not None:
            known_hits.setdefault(e["what"], 0)
            known_hits[e["what"]] += 1
        else:
            unknown.append((key, v))
    nonrepro = 0
    if unknown:
        # confirm every unlisted violation in fresh interpreters before reporting it
        rrs = pool.run_tasks(mod.ENGINE, [{"kind": "replay", "scenario": v["scenario"]} for _, v in unknown],
                             workers=args.workers, timeout_s=3600)
        for (key, v), rr in zip(unknown, rrs):
            if "harness_error" in rr:
                raise HarnessError("replay of a violation failed: " + rr["harness_error"])
            if not any(x["signature"] == v["signature"] for x in rr.get("violations", [])):
                os.makedirs(REPLAY_DIR, exist_ok=True)
                dump = os.path.join(REPLAY_DIR, "NONREPRO-%s.json" % mod.PROP)
                with open(dump, "w") as fp:
                    json.dump({"property": mod.PROP, "engine": mod.ENGINE, "signature": v["signature"], "message": v["message"], "scenario": v["scenario"],
                               "found_by": v.get("found_by"), "replayed": rr.get("violations", [])}, fp, indent=1)
                print("HARNESS-WARNING property=%s violation %s did not reproduce on replay in a fresh interpreter (scenario dumped to %s); not reported" % (mod.PROP, key, dump))
                nonrepro += 1
                continue
            path = write_replay(mod.PROP, v)
            n_viol += 1
            lines.append("VIOLATION property=%s replay=%s" % (mod.PROP, path))
            print("violation: %s :: %s" % (key, v["message"][:600]))
    if nonrepro and not n_viol:
        raise HarnessError("%d violation(s) found by the search did not reproduce on replay and none did" % nonrepro)
    for what in sorted(known_hits):
        print("KNOWN-FINDING: property=%s %s" % (mod.PROP, what))
    for ln in lines:
        print(ln)

    wall = time.time() - t0
    if not args.no_evidence:
        keep = [i for i, r in enumerate(results) if not r.get("sut_exception")]
        cov = mod.summarize([tasks[i] for i in keep], [results[i] for i in keep], tier, seed)
        cov["tasks_aborted_by_exception_in_code_under_test"] = len(results) - len(keep)
        cov["seeds_per_hour"] = int(cov.get("evaluations", 0) / max(wall, 1e-9) * 3600)
        cov["determinism_selftest"] = selftest
        cov["known_findings_hit"] = sorted(known_hits)
        runs = cov.get("evaluations", 0)
        cov["runs_per_hour"] = int(runs / max(wall, 1e-9) * 3600)
        cov["workers"] = args.workers
        ev = {
            "property_id": mod.PROP,
            "tier": tier,
            "seed": seed,
            "level": mod.LEVEL,
            "coverage": cov,
            "assumptions": list(getattr(mod, "ASSUMPTIONS", [])),
            "wall_s": round(wall, 2),
            "violations": n_viol,
        }
        os.makedirs(EVIDENCE_DIR, exist_ok=True)
        with open(os.path.join(EVIDENCE_DIR, mod.PROP + ".json"), "w") as fp:
            json.dump(ev, fp, indent=1, sort_keys=True)
            fp.write("\n")
    print("%s tier=%s seed=%d tasks=%d violations=%d known=%d wall=%.1fs" % (mod.PROP, tier, seed, len(tasks), n_viol, len(known_hits), wall))
    return 1 if n_viol else 0
