"""ref_fresh: build a scene from JSON in a fresh registry with every base
Parameter carrying given values - the "freshly built copy" used as oracle."""
from __future__ import annotations

import copy

RUNNABLE_TYPES = ("MCMC", "Optimizer", "Sampler", "Logger", "TreeLogger", "CSV", "Dumper", "ContainerLogger")


def model_part(spec):
    """Top-level elements that describe the model (no samplers / loggers)."""
    return [e for e in spec if str(e.get("type", "")).split(".")[-1] not in RUNNABLE_TYPES]


def _is_param_dict(d):
    return isinstance(d, dict) and str(d.get("type", "")).split(".")[-1] == "Parameter" and "id" in d


def substitute(spec, values):
    """Return a deep copy of `spec` where every Parameter dict whose id is in
    `values` holds exactly that tensor (values, dtype, shape)."""
    spec = copy.deepcopy(spec)

    def walk(o):
        if isinstance(o, dict):
            if _is_param_dict(o) and o["id"] in values:
                t = values[o["id"]]
                keep = {k: o[k] for k in ("id", "type", "nn") if k in o}
                o.clear()
                o.update(keep)
                o["tensor"] = t.detach().tolist()
                o["dtype"] = str(t.dtype)
                return
            for v in o.values():
                walk(v)
        elif isinstance(o, list):
            for v in o:
                walk(v)

    walk(spec)
    return spec


def build(spec):
    """Instantiate every element of a (model-only) specification; returns the registry."""
    from torchtree.core.utils import process_objects

    dic = {}
    for element in copy.deepcopy(spec):
        process_objects(element, dic)
    return dic


def fresh(spec, values):
    return build(substitute(model_part(spec), values))


def base_parameters(dic):
    """All plain Parameter objects of a registry, by id."""
    from torchtree.core.parameter import Parameter

    return {k: v for k, v in dic.items() if type(v) is Parameter}


def snapshot_values(dic):
    return {k: p.tensor.detach().clone() for k, p in base_parameters(dic).items()}
