"""Numerical fault injection for targets.

FaultyTarget wraps a model; inside a *region* of parameter space (a
deterministic function of the current parameter values, i.e. a hard wall that
is part of the target's definition) it returns -inf / +inf / NaN instead of the
inner value.  Because the region is a function of state, the target stays a
well-defined function and the freshly built reference applies the same rule.
"""
from __future__ import annotations

import torch

from torchtree.core.model import CallableModel
from torchtree.core.utils import process_object, register_class

FIRED = {}


@register_class
class FaultyTarget(CallableModel):
    def __init__(self, id_, model, watch, index, lo, hi, value):
        super().__init__(id_)
        self.model = model
        self.watch = watch
        self.index = index
        self.lo = lo
        self.hi = hi
        self.value = value

    def in_region(self):
        v = self.watch.tensor.detach().reshape(-1)[self.index].item()
        return not (self.lo <= v <= self.hi)

    def _call(self, *args, **kwargs):
        lp = self.model()
        if self.in_region():
            FIRED[self.value] = FIRED.get(self.value, 0) + 1
            if self.value == "nan":
                return lp * float("nan")
            if self.value == "+inf":
                return lp + float("inf")
            return lp - float("inf")
        return lp

    def _sample_shape(self):
        return self.model.sample_shape

    @classmethod
    def from_json(cls, data, dic):
        model = process_object(data["model"], dic)
        watch = process_object(data["watch"], dic)
        return cls(data["id"], model, watch, data.get("index", 0), data["lo"], data["hi"], data["value"])
