"""Incarnations: one call of the real torchtree.torchtree.main() inside the
worker, with the configuration on stdin, stdout captured and SimFS active.

Between incarnations every Python object of the run is dropped; only SimFS
durable bytes survive.
"""
from __future__ import annotations

import contextlib
import io
import json
import logging
import sys

from . import simfs
from .simfs import SimCrash

CONFIG_PATH = simfs.VROOT + "/run/config.json"


class Outcome:
    def __init__(self):
        self.kind = None  # finished | crash | exception
        self.exc = None
        self.exc_text = None
        self.stdout = ""


def run_main(fs, config, checkpoint=None, dtype="float64", extra_args=()):
    """Run main() once.  `config` is the JSON specification (python object)."""
    import torch

    import torchtree.torchtree as tt

    out = Outcome()
    argv = ["torchtree", "--dtype", dtype]
    if checkpoint:
        for c in ([checkpoint] if isinstance(checkpoint, str) else checkpoint):
            argv += ["-c", c]
    argv += list(extra_args) + ["-"]
    old_argv, old_stdin = sys.argv, sys.stdin
    sys.argv = argv
    sys.stdin = io.StringIO(json.dumps(config))
    buf = io.StringIO()
    simfs.activate(fs)
    root = logging.getLogger()
    old_handlers = list(root.handlers)
    try:
        with contextlib.redirect_stdout(buf), contextlib.redirect_stderr(io.StringIO()):
            try:
                tt.main()
                out.kind = "finished"
            except SimCrash as e:
                out.kind = "crash"
                out.exc_text = str(e)
            except SystemExit as e:
                out.kind = "exception"
                out.exc = e
                out.exc_text = "SystemExit(%s)" % (e.code,)
            except BaseException as e:  # noqa: BLE001 - the process would end by this exception
                out.kind = "exception"
                out.exc = e
                import traceback

                out.exc_text = "%s: %s" % (type(e).__name__, str(e)[:300])
                out.traceback = traceback.format_exc()[-3000:]
    finally:
        sys.argv, sys.stdin = old_argv, old_stdin
        simfs.deactivate()
        for h in list(root.handlers):
            if h not in old_handlers:
                root.removeHandler(h)
        torch.set_default_dtype(torch.float64)
    fs.kill()
    fs.dead = False
    out.stdout = buf.getvalue()
    return out


class Patch:
    """Reversible attribute rebinding (module globals, class attributes)."""

    def __init__(self):
        self._undo = []

    def set(self, obj, name, value):
        missing = object()
        old = obj.__dict__.get(name, missing) if hasattr(obj, "__dict__") else getattr(obj, name, missing)
        self._undo.append((obj, name, old, missing))
        setattr(obj, name, value)

    def undo(self):
        for obj, name, old, missing in reversed(self._undo):
            if old is missing:
                try:
                    delattr(obj, name)
                except AttributeError:
                    pass
            else:
                setattr(obj, name, old)
        self._undo = []

    def __enter__(self):
        return self

    def __exit__(self, *exc):
        self.undo()
        return False


class SimSignalHandler:
    """Stands in for core.utils.SignalHandler: `.stop` is flipped by the simulator
    (graceful SIGINT) instead of by a real signal."""

    controller = None  # callable() -> bool, polled at the top of each iteration

    def __init__(self):
        self._stop = False

    @property
    def stop(self):
        c = SimSignalHandler.controller
        if c is not None and c():
            self._stop = True
        return self._stop

    @stop.setter
    def stop(self, v):
        self._stop = v
