"""Scene builders shared by the engines: recipe (small JSON) -> torchtree
specification.  Deterministic functions of the recipe and of the code in /repo
(the CLI builders run in-process)."""
from __future__ import annotations

from . import scenes

CKPT = scenes.RUN + "/checkpoint.json"

# model-defining CLI option vectors that load and evaluate on the pinned tree
CLI_MODEL_VECTORS = [
    ["--clock", "strict", "--coalescent", "constant"],
    ["--clock", "strict", "--coalescent", "exponential", "--heights", "shift"],
    ["--clock", "strict", "--coalescent", "skygrid", "--grid", "5", "--cutoff", "10", "-m", "HKY", "-C", "4"],
    ["--clock", "strict", "--coalescent", "skyride", "-m", "GTR", "-I"],
    ["--clock", "strict", "--coalescent", "skyride", "--disable_time_aware"],
    ["--clock", "strict", "--coalescent", "piecewise-constant", "--grid", "4", "--cutoff", "8"],
    ["--clock", "strict", "--coalescent", "piecewise-linear", "--grid", "4", "--cutoff", "8"],
    ["--clock", "strict", "--coalescent", "skyglide", "--grid", "4", "--cutoff", "8"],
    ["--clock", "strict", "--coalescent", "skygrid", "--grid", "5", "--cutoff", "10", "--gmrf_integrated"],
    ["--clock", "strict", "--coalescent", "skygrid", "--grid", "5", "--cutoff", "10", "--coalescent_non_centered"],
    ["--clock", "ucln", "--coalescent", "constant"],
    ["--clock", "strict", "--birth-death", "bdsk", "--grid", "3"],
    ["--clock", "strict", "--coalescent", "constant", "--use_tip_states"],
    ["--clock", "strict", "--coalescent", "constant", "--include_jacobian"],
    ["-m", "JC69"],
    ["-m", "HKY", "-C", "4", "-I"],
    ["-m", "GTR", "-C", "3"],
    ["-m", "K80"],
    ["-m", "SYM"],
    ["-m", "GTR", "--brlenspr", "gammadir"],
    ["-m", "SRD06"],
    ["-m", "HKY", "--use_ambiguities"],
]

_OPTIMIZERS = {
    "SGD": {"lr": 0.05},
    "SGD-momentum": {"lr": 0.05, "momentum": 0.9},
    "SGD-nesterov": {"lr": 0.05, "momentum": 0.9, "nesterov": True},
    "Adam": {"lr": 0.1},
    "Adam-amsgrad": {"lr": 0.1, "amsgrad": True},
    "AdamW": {"lr": 0.1},
    "Adamax": {"lr": 0.1},
    "NAdam": {"lr": 0.05},
    "RAdam": {"lr": 0.05},
    "Adagrad": {"lr": 0.2},
    "Adadelta": {"lr": 1.0},
    "RMSprop": {"lr": 0.02},
    "RMSprop-momentum": {"lr": 0.02, "momentum": 0.5, "centered": True},
    "ASGD": {"lr": 0.05},
    "Rprop": {"lr": 0.05},
    "LBFGS": {"lr": 0.5, "max_iter": 3, "history_size": 4},
}
_SCHEDULERS = {
    "none": None,
    "LambdaLR": {"scheduler": "torch.optim.lr_scheduler.LambdaLR", "lr_lambda": "lambda epoch: 1.0 / (epoch + 1)**0.5"},
    "StepLR": {"scheduler": "torch.optim.lr_scheduler.StepLR", "step_size": 3, "gamma": 0.5},
    "ExponentialLR": {"scheduler": "torch.optim.lr_scheduler.ExponentialLR", "gamma": 0.9},
    "CosineAnnealingLR": {"scheduler": "torch.optim.lr_scheduler.CosineAnnealingLR", "T_max": 7},
    "MultiStepLR": {"scheduler": "torch.optim.lr_scheduler.MultiStepLR", "milestones": [2, 5, 9], "gamma": 0.3},
}


# ----------------------------------------------------------------------------
# scenes
# ----------------------------------------------------------------------------
def build_spec(recipe):
    """Deterministic: recipe -> (specification, metadata)."""
    kind = recipe["kind"]
    if kind == "toy_opt":
        return _toy_opt(recipe)
    if kind == "toy_mcmc":
        return _toy_mcmc(recipe)
    if kind == "cli":
        return _cli(recipe)
    raise ValueError(kind)


def _toy_opt(r):
    dt = None if r.get("param_dtype") in (None, "default") else r["param_dtype"]
    spec = scenes.toy_joint(dt, r.get("nn", False), r.get("dim", 3))
    if r["loss"] == "map":
        loss = "joint"
        params = ["x", "z"]
    elif r["loss"] == "flow":
        # ADVI with a normalizing flow of planar layers: the optimised parameters are the weights of
        # torch modules (torch.nn.Parameter tensors inside torchtree Parameters)
        def planar(i):
            # default dtype throughout (the base distribution and the latent z have it too)
            return {"id": "planar.%d" % i, "type": "torchtree.nn.Module", "module": "torchtree.nf.planar.PlanarTransform",
                    "parameters": {"u": scenes.param("flow.u.%d" % i, [[0.1 * (i + 1), -0.05]], None, True),
                                   "w": scenes.param("flow.w.%d" % i, [[0.07, 0.02 * (i + 1)]], None, True),
                                   "b": scenes.param("flow.b.%d" % i, [0.03 * i], None, True)}}

        spec = [{"id": "joint", "type": "torchtree.nf.energy_functions.EnergyFunctionModel", "x": {"id": "z", "type": "Parameter", "zeros": [4, 2]}, "function": "u_z1"}]
        loss = {"id": "elbo", "type": "ELBO", "samples": [4], "joint": "joint",
                "variational": {"id": "varmodel", "type": "torchtree.nf.flow.NormalizingFlow", "x": "z", "layers": [planar(0), planar(1)],
                                "base": {"id": "base", "type": "torchtree.distributions.MultivariateNormal",
                                         "parameters": {"loc": scenes.param("base.loc", [0.0, 0.0]), "covariance_matrix": scenes.param("base.scale", [[1.0, 0.0], [0.0, 1.0]])},
                                         "x": scenes.param("flow.z", [0.0, 0.0])}}}
        params = ["flow.u.0", "flow.w.0", "flow.b.0", "flow.u.1", "flow.w.1", "flow.b.1"]
    else:
        dim = r.get("dim", 3)
        q = scenes.joint(
            "variational",
            [
                scenes.dist("qx", "torch.distributions.Normal", "x", {
                    "loc": scenes.param("qx.loc", [0.1] * dim, dt, r.get("nn", False)),
                    "scale": scenes.transformed("qx.scale", "torch.distributions.ExpTransform", scenes.param("qx.scale.unres", [-1.0] * dim, dt, r.get("nn", False))),
                }),
                scenes.dist("qz", "torch.distributions.Normal", "z", {
                    "loc": scenes.param("qz.loc", [0.0, 0.2], dt, r.get("nn", False)),
                    "scale": scenes.transformed("qz.scale", "torch.distributions.ExpTransform", scenes.param("qz.scale.unres", [-1.5, -1.0], dt, r.get("nn", False))),
                }),
            ],
        )
        spec.append(q)
        loss = {"id": "elbo", "type": r["loss"], "samples": r.get("samples", 2), "joint": "joint", "variational": "variational"}
        if r.get("entropy"):
            loss["entropy"] = True
        params = ["qx.loc", "qx.scale.unres", "qz.loc", "qz.scale.unres"]
    alg = r["algorithm"]
    opt = {
        "id": "opt",
        "type": "Optimizer",
        "algorithm": "torch.optim." + alg.split("-")[0],
        "options": dict(_OPTIMIZERS[alg]),
        "maximize": True,
        "checkpoint": CKPT,
        "checkpoint_frequency": r["freq"],
        "iterations": r["iterations"],
        "loss": loss,
        "parameters": params,
    }
    if r.get("checkpoint_all"):
        opt["checkpoint_all"] = True  # one numbered file per checkpoint next to the plain name
    if r.get("groups"):
        half = max(1, len(params) // 2)
        opt["parameters"] = [{"params": params[:half]}, {"params": params[half:], "lr": _OPTIMIZERS[alg]["lr"] * 0.5}]
    sch = _SCHEDULERS[r.get("scheduler", "none")]
    if sch is not None and alg != "LBFGS":
        opt["scheduler"] = dict(sch, type="torchtree.optim.Scheduler")
    if r.get("convergence") and r["loss"] != "map" and alg != "LBFGS":
        opt["convergence"] = {"type": "VariationalConvergence", "loss": "elbo", "every": r.get("conv_every", 3), "samples": 3,
                              "file_name": scenes.RUN + "/elbo.txt"}
    if r.get("logger") and r["loss"] != "flow":  # (the flow's weights are defined inside the loss, after the loggers are read)
        opt["loggers"] = [{"id": "logger", "type": "Logger", "parameters": params, "file_name": scenes.RUN + "/opt.csv", "every": 1}]
    spec.append(opt)
    return spec, {"algo": "Optimizer", "algo_id": "opt", "ckpt": CKPT}


def _toy_mcmc(r):
    dt = None if r.get("param_dtype") in (None, "default") else r["param_dtype"]
    dim = r.get("dim", 3)
    spec = [
        scenes.joint(
            "joint",
            [
                scenes.dist("px", "torch.distributions.Normal", scenes.param("x", [0.3 * (i + 1) for i in range(dim)], dt), {"loc": [0.5] * dim, "scale": [1.5] * dim}),
                scenes.dist("ps", "torch.distributions.Gamma", scenes.param("s", [1.2, 0.7], dt), {"concentration": [2.0, 3.0], "rate": [1.0, 2.0]}),
                scenes.dist("pf", "torch.distributions.Dirichlet", scenes.param("f", [0.1, 0.2, 0.3, 0.4], dt), {"concentration": [2.0, 1.0, 1.5, 3.0]}),
                scenes.dist(
                    "py", "torch.distributions.Gamma",
                    scenes.transformed("y", "torch.distributions.ExpTransform", scenes.param("z", [0.1, -0.4], dt)),
                    {"concentration": [2.0, 3.0], "rate": [1.0, 2.0]},
                ),
                "y",
            ],
        )
    ]
    if r.get("coupled"):
        # z | x: the blocks are no longer independent, so the gradient with respect to one depends on the other
        spec[0]["distributions"].insert(4, scenes.dist("pc", "torch.distributions.Normal", "z",
                                                       {"loc": {"id": "xc", "type": "ViewParameter", "parameter": "x", "indices": "0:1"}, "scale": [2.0]}))
    ops = []
    common = {}
    if r.get("disable_adaptation"):
        common["disable_adaptation"] = True
    if r.get("window"):
        common["acceptance_window_length"] = r["window"]
    for name in r["operators"]:
        if name == "sliding":
            ops.append(dict({"id": "op.x", "type": "SlidingWindowOperator", "parameters": "x", "weight": 2.0, "width": 0.8}, **common))
        elif name == "sliding2":
            ops.append(dict({"id": "op.z", "type": "SlidingWindowOperator", "parameters": ["z", "x"], "weight": 1.0, "width": 0.4}, **common))
        elif name == "scaler":
            ops.append(dict({"id": "op.s", "type": "ScalerOperator", "parameters": "s", "weight": 1.5, "scaler": 0.6}, **common))
        elif name == "dirichlet":
            ops.append(dict({"id": "op.f", "type": "DirichletOperator", "parameters": "f", "weight": 1.0, "scaler": 50.0}, **common))
        elif name == "slidingz":
            ops.append(dict({"id": "op.zz", "type": "SlidingWindowOperator", "parameters": "z", "weight": 2.0, "width": 0.5}, **common))
        elif name.startswith("hmc"):
            hp = list(r.get("hmc_params") or ["x", "z"])
            n = (dim if "x" in hp else 0) + (2 if "z" in hp else 0)
            mm = {"id": "hmc.mass", "type": "Parameter"}
            if "dense" in name:
                mm["eye"] = n
            else:
                mm["ones"] = n
            op = {"id": "op.hmc", "type": "HMCOperator", "joint": "joint", "parameters": hp, "weight": 1.0,
                  "integrator": {"id": "leapfrog", "type": "LeapfrogIntegrator", "steps": r.get("leap_steps", 3), "step_size": 0.15},
                  "mass_matrix": mm, "adaptors": []}
            if r.get("find_step_size"):
                op["find_reasonable_step_size"] = True
            if "mass" in name:
                ad = {"id": "mass.adaptor", "type": "MassMatrixAdaptor", "mass_matrix": "hmc.mass", "update_frequency": r.get("mass_freq", 4), "parameters": hp}
                if r.get("mass_window"):
                    ad["variance_window"] = 1
                elif r.get("mass_swap"):
                    ad["swap_every"] = r["mass_swap"]
                op["adaptors"].append(ad)
            if "dual" in name:
                op["adaptors"].append({"id": "step.adaptor", "type": "DualAveragingStepSize", "integrator": "leapfrog"})
            elif "adaptive" in name:
                ad = {"id": "step.adaptor", "type": "AdaptiveStepSize", "integrator": "leapfrog", "target_acceptance_probability": 0.8}
                if r.get("use_acceptance_rate"):
                    ad["use_acceptance_rate"] = True
                op["adaptors"].append(ad)
            for ad in op["adaptors"]:
                if r.get("adapt_start"):
                    ad["start"] = r["adapt_start"]
                if r.get("adapt_end"):
                    ad["end"] = r["adapt_end"]
            ops.append(op)
    if r.get("view_op"):
        # operators attached to views of plain parameters (the CLI creates such views for SRD06)
        spec.insert(0, {"id": "xv", "type": "ViewParameter", "parameter": scenes.param("x", [0.3 * (i + 1) for i in range(dim)], dt), "indices": "0:%d" % max(1, dim - 1)})
        spec[1]["distributions"][0]["x"] = "x"
        spec.insert(1, {"id": "sv", "type": "ViewParameter", "parameter": scenes.param("s", [1.2, 0.7], dt), "indices": "1:2"})
        spec[2]["distributions"][1]["x"] = "s"
        ops.append(dict({"id": "op.xv", "type": "SlidingWindowOperator", "parameters": "xv", "weight": 1.5, "width": 0.6}, **common))
        ops.append(dict({"id": "op.sv", "type": "ScalerOperator", "parameters": "sv", "weight": 1.0, "scaler": 0.6}, **common))
    if r.get("transformed_op"):
        ops.append(dict({"id": "op.y", "type": "ScalerOperator", "parameters": "y", "weight": 1.0, "scaler": 0.7}, **common))
    ts = r.get("tune_scale")
    for op in ops:
        if not isinstance(op, dict):
            continue
        if r.get("target_acc"):
            op["target_acceptance_probability"] = r["target_acc"]
        if ts:
            if op["type"] == "SlidingWindowOperator":
                op["width"] *= ts
            elif op["type"] == "ScalerOperator":
                op["scaler"] = min(0.98, op["scaler"] ** ts)
            elif op["type"] == "DirichletOperator":
                op["scaler"] *= ts
            elif op["type"] == "HMCOperator":
                op["integrator"]["step_size"] *= ts
    target = "joint"
    if r.get("faulty"):
        f = r["faulty"]
        spec.append({"id": "target", "type": "sim.faulty.FaultyTarget", "model": "joint", "watch": f["watch"], "index": f.get("index", 0),
                     "lo": f["lo"], "hi": f["hi"], "value": f["value"]})
        target = "target"
        for op in ops:
            if isinstance(op, dict) and op["type"] == "HMCOperator":
                op["joint"] = "target"
    elif r.get("hmc_conditional") and list(r.get("hmc_params") or []) == ["x"]:
        # HMC works on the conditional density of its own block (the terms that involve x), as a user
        # would set it up to save evaluations: a different object from the target of the chain
        spec.append({"id": "joint.hmc", "type": "JointDistributionModel", "distributions": ["px"] + (["pc"] if r.get("coupled") else [])})
        for op in ops:
            if isinstance(op, dict) and op["type"] == "HMCOperator":
                op["joint"] = "joint.hmc"
    if r.get("dup_op") and len(ops) >= 2:
        # the same operator listed twice (by reference) before another one: legal, doubles its share
        ops.insert(1, ops[0]["id"])
    mcmc = {"id": "mcmc", "type": "MCMC", "joint": target, "iterations": r["iterations"], "operators": ops,
            "checkpoint": CKPT, "checkpoint_frequency": r["freq"], "every": r.get("every", 0)}
    if r.get("logger"):
        mcmc["loggers"] = [{"id": "logger", "type": "Logger", "parameters": [target, "px", "x", "s", "f", "z", "y"], "file_name": scenes.RUN + "/mcmc.csv", "every": r.get("log_every", 1)}]
    spec.append(mcmc)
    return spec, {"algo": "MCMC", "algo_id": "mcmc", "ckpt": CKPT}


def _cli(r):
    sub = r["sub"]
    args = [sub] + scenes.tiny_args() + list(r["args"]) + ["--stem", scenes.RUN + "/x"]
    if sub != "map":
        args += ["--iter", str(r["iterations"])]
    if sub in ("mcmc", "hmc"):
        args += ["--log_every", str(r.get("log_every", 1))]
    spec = scenes.cli(args)
    if sub in ("mcmc", "hmc"):
        aid = "mcmc" if sub == "mcmc" else "hmc"
        m = scenes.find(spec, aid)
        m["checkpoint"] = CKPT
        m["checkpoint_frequency"] = r["freq"]
        m["every"] = 0
        if not r.get("logger", True):
            m.pop("loggers", None)
        return spec, {"algo": "MCMC", "algo_id": aid, "ckpt": CKPT}
    aid = "advi" if sub == "advi" else "map"
    spec = [e for e in spec if e.get("type") != "Sampler" and not str(e.get("type", "")).endswith("Logger")]
    o = scenes.find(spec, aid)
    if o is None:
        o = [e for e in spec if e.get("type") == "Optimizer"][0]
        aid = o["id"]
    o["checkpoint"] = CKPT
    o["checkpoint_frequency"] = r["freq"]
    o["iterations"] = r["iterations"]
    if sub == "map":
        o["options"]["max_iter"] = 3
    if "convergence" in o:
        if r.get("convergence"):
            o["convergence"] = {"type": "VariationalConvergence", "loss": o["convergence"]["loss"], "every": 3, "samples": 2}
        else:
            del o["convergence"]
    return spec, {"algo": "Optimizer", "algo_id": aid, "ckpt": CKPT}


