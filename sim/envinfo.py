"""Process-wide setup shared by all engines: import torchtree from the tree under
test, pin threads / dtype, populate the class registry once."""
from __future__ import annotations

import importlib
import os
import sys

_DONE = [False]


def setup():
    if _DONE[0]:
        return
    if os.environ.get("VERIF_REPO") and os.environ["VERIF_REPO"] not in sys.path:
        sys.path.insert(0, os.environ["VERIF_REPO"])
    import torch

    torch.set_num_threads(1)
    try:
        torch.set_num_interop_threads(1)
    except RuntimeError:
        pass
    torch.set_default_dtype(torch.float64)
    from torchtree.core.utils import package_contents

    for m in sorted(package_contents("torchtree")):
        importlib.import_module(m)
    _DONE[0] = True


def environment():
    import torch
    import torchtree

    return {
        "python": sys.version.split()[0],
        "torch": torch.__version__,
        "torchtree_root": os.path.dirname(os.path.dirname(torchtree.__file__)),
    }
