"""ref_state: a name-agnostic deep snapshot of an algorithm object.

Walks attributes (vars()) rather than state_dict(), so a key that is dropped
from both state_dict() and load_state_dict() is still seen.  The scope is the
list in property C17: parameter values with dtypes, optimiser moments and step
counts, scheduler state, operator tuning values and counters, adaptor state,
mass matrices.  Loggers, convergence monitors and model graphs are references,
not state, and are not followed.
"""
from __future__ import annotations

import collections
import math
import struct
import types

from .core import tensor_digest

# scratch attributes that the next transition overwrites before reading, and the
# iteration counter (checked semantically through the number of steps performed)
EXCLUDED_NAMES = {
    "saved_tensors",
    "_epoch",
    "loggers",
    "convergence",
    "listeners",
    "_listeners",
    "distributions",
}


def _f(x: float) -> str:
    if math.isnan(x):
        return "nan"
    return struct.pack(">d", float(x)).hex()


def snapshot(obj) -> dict:
    out = {}
    _walk(obj, "", out, set(), 0)
    return out


def _walk(x, path, out, seen, depth):
    import torch

    from torchtree.core.abstractparameter import AbstractParameter
    from torchtree.core.logger import LoggerInterface
    from torchtree.core.model import Model

    if depth > 12:
        out[path] = ("depth-limit",)
        return
    if x is None or isinstance(x, (bool, str)):
        out[path] = ("v", repr(x))
        return
    if isinstance(x, int):
        out[path] = ("n", _f(float(x)), repr(x))
        return
    if isinstance(x, float):
        out[path] = ("n", _f(x), repr(x))
        return
    if isinstance(x, torch.Tensor):
        out[path] = ("T", str(x.dtype), tuple(x.shape), tensor_digest(x), _preview(x))
        return
    if isinstance(x, AbstractParameter):
        t = x.tensor
        out[path + "<param:%s>" % x.id] = (
            "P", str(t.dtype), tuple(t.shape), tensor_digest(t), _preview(t), isinstance(t, torch.nn.Parameter),
        )
        return
    if isinstance(x, Model):
        out[path] = ("modelref", type(x).__name__, x.id)
        return
    if isinstance(x, LoggerInterface):
        return
    if isinstance(x, (types.FunctionType, types.MethodType, types.BuiltinFunctionType, types.ModuleType, type)):
        return
    try:
        import numpy as np

        if isinstance(x, np.generic):
            _walk(x.item(), path, out, seen, depth)
            return
        if isinstance(x, np.ndarray):
            _walk(torch.from_numpy(x), path, out, seen, depth)
            return
    except ImportError:
        pass
    if isinstance(x, torch.Size):
        out[path] = ("v", repr(tuple(x)))
        return
    if id(x) in seen:  # `seen` holds the ancestors of the current node only (cycle guard)
        return
    seen.add(id(x))
    try:
        _walk_container(x, path, out, seen, depth)
    finally:
        seen.discard(id(x))


def _walk_container(x, path, out, seen, depth):
    import torch

    if isinstance(x, (list, tuple, collections.deque)):
        out[path + ".len"] = ("v", repr(len(x)))
        for i, e in enumerate(x):
            _walk(e, "%s[%d]" % (path, i), out, seen, depth + 1)
        return
    if isinstance(x, dict):
        for k in sorted(x, key=str):
            if isinstance(k, torch.Tensor):
                continue
            if isinstance(k, str) and k in EXCLUDED_NAMES:
                continue
            # a key that is not a string keeps its type in the path: JSON turns 2 into "2"
            label = k if isinstance(k, str) else "<%s:%r>" % (type(k).__name__, k)
            _walk(x[k], "%s.%s" % (path, label), out, seen, depth + 1)
        return
    if isinstance(x, torch.optim.Optimizer):
        out[path + ".class"] = ("v", type(x).__name__)
        index = {}
        for gi, g in enumerate(x.param_groups):
            for k in sorted(g):
                if k == "params":
                    out["%s.param_groups[%d].nparams" % (path, gi)] = ("v", repr(len(g["params"])))
                    for p in g["params"]:
                        index[id(p)] = len(index)
                else:
                    _walk(g[k], "%s.param_groups[%d].%s" % (path, gi, k), out, seen, depth + 1)
        for p, st in x.state.items():
            i = index.get(id(p), "?")
            _walk(st, "%s.state[%s]" % (path, i), out, seen, depth + 1)
        return
    mod = type(x).__module__ or ""
    if mod.startswith("torch.optim.lr_scheduler"):
        out[path + ".class"] = ("v", type(x).__name__)
        for k in sorted(vars(x)):
            if k == "optimizer" or callable(vars(x)[k]):
                continue
            if k == "lr_lambdas":
                continue
            _walk(vars(x)[k], "%s.%s" % (path, k), out, seen, depth + 1)
        return
    if mod.startswith("torchtree") or mod.startswith("sim.") or mod.startswith("checks."):
        out[path + ".class"] = ("v", type(x).__name__)
        for k in sorted(vars(x)):
            if k in EXCLUDED_NAMES:
                continue
            _walk(vars(x)[k], "%s.%s" % (path, k), out, seen, depth + 1)
        return
    # anything else: record its type only
    out[path] = ("opaque", type(x).__name__)


def _preview(t):
    try:
        flat = t.detach().reshape(-1)
        return [float(v) for v in flat[:3].tolist()]
    except Exception:  # noqa: BLE001
        return []


def equal_leaf(a, b) -> bool:
    if a[0] == "n" and b[0] == "n":
        return a[1] == b[1]
    if a[0] in ("T", "P") and b[0] == a[0]:
        return a[:4] == b[:4] and (a[0] != "P" or a[5] == b[5])
    return a == b


def diff(a: dict, b: dict):
    """List of (path, a_leaf, b_leaf) where snapshots differ."""
    out = []
    for k in sorted(set(a) | set(b)):
        if k not in a:
            out.append((k, None, b[k]))
        elif k not in b:
            out.append((k, a[k], None))
        elif not equal_leaf(a[k], b[k]):
            out.append((k, a[k], b[k]))
    return out


def generalise(path: str) -> str:
    """Replace indices by * so that a signature does not depend on positions."""
    import re

    p = re.sub(r"\[\d+\]", "[*]", path)
    p = re.sub(r"<param:[^>]*>", "<param>", p)
    return p
